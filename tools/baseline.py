"""run the repository's pinned test command (guard off) and compare with BASELINE.json stable_pass."""
import json, subprocess, sys, tempfile, os
import xml.etree.ElementTree as ET
b = json.load(open('/root/.vp/BASELINE.json'))
x = tempfile.mktemp(suffix='.xml')
cmd = b['cmd'].replace('<file>', x)
env = dict(os.environ); env.pop('PRYSM_VERIF', None)
p = subprocess.run(cmd, shell=True, capture_output=True, text=True, env=env)
passed = set()
for tc in ET.parse(x).getroot().iter('testcase'):
    if not any(ch.tag in ('failure', 'error', 'skipped') for ch in tc):
        passed.add('%s::%s' % (tc.get('classname'), tc.get('name')))
os.remove(x)
missing = [t for t in b['stable_pass'] if t not in passed]
print('stable_pass=%d passed_now=%d missing=%d' % (len(b['stable_pass']), len(passed), len(missing)))
for t in missing[:40]:
    print('  MISSING', t)
sys.exit(1 if missing else 0)
