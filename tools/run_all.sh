#!/bin/bash
# developer tool: run every registered check of a tier in sequence, print exit code and wall time per property
tier=${1:-quick}
cd "$(dirname "$0")/.."
for P in $(python3 -c "import json; print(' '.join(c['property_id'] for c in json.load(open('MANIFEST.json'))['checks']))"); do
  s=$(date +%s); out=$(python3-vt -m pvc check $P --tier $tier 2>&1); rc=$?; e=$(date +%s)
  echo "$P rc=$rc wall=$((e-s))s $(echo "$out" | grep -c '^VIOLATION') violations $(echo "$out" | grep -c '^UNDECIDED') undecided $(echo "$out" | grep -c '^KNOWN-FINDING') known | $(echo "$out" | grep '^SUMMARY' | cut -c1-200)"
done
