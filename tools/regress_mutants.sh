#!/bin/bash
# developer tool: re-run every stored seeded change (seeded/<ID>/mN) against the current /repo HEAD and the current checks.
# One stream per property (parallel across properties, sequential within one: a run rewrites evidence/<ID>.json and replay/<ID>/).
# Prints one line per mutant: "<ID> <mN> violations=<n> undecided=<n> first=<obligation>"; exit 1 if any has no VIOLATION line.
cd "$(dirname "$0")/.."
ids=${@:-$(ls seeded)}
stream() { P=$1; for d in $(ls -d seeded/$P/m* | sort -V); do
    out=$(tools/try_mutant2.sh $P /verif/$d 400 2>&1)
    if echo "$out" | grep -q "patch does not apply"; then echo "$P $(basename $d) PATCH-DOES-NOT-APPLY"; continue; fi
    nv=$(echo "$out" | grep -c "^VIOLATION"); nu=$(echo "$out" | grep -c "^UNDECIDED")
    first=$(echo "$out" | grep "^VIOLATION" | sed 's/.*obligation=//' | cut -c1-120 | head -3 | tr '\n' ';')
    echo "$P $(basename $d) violations=$nv undecided=$nu first=$first"; done; }
export -f stream
printf '%s\n' $ids | xargs -P 10 -I{} bash -c 'stream {}' | tee /tmp/regress_mutants.log
! grep -q "violations=0\|PATCH-DOES-NOT-APPLY" /tmp/regress_mutants.log
