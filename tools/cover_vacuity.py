"""developer tool: concrete-cover vacuity scan.  For every deductive (non-bounded) harness of every property run the concrete mode on
N seeds and list the harnesses in which NO check was ever evaluated (every run aborted by a precondition): such a harness gets no
concrete cross-check of its contract and counter-models could not be replayed.  usage: python3 tools/cover_vacuity.py [seeds]"""
import json, subprocess, os, sys, re
from concurrent.futures import ThreadPoolExecutor
seeds = int(sys.argv[1]) if len(sys.argv) > 1 else 30
env = dict(os.environ, PVC_MODE='concrete', PYTHONPATH='/verif:/repo')
props = [c['property_id'] for c in json.load(open('/verif/MANIFEST.json'))['checks']]


def harnesses(prop):
    code = "import sys,json; sys.path.insert(0,'/verif'); import importlib; importlib.import_module('contracts.%s'); from pvc.registry import HARNESSES; print(json.dumps([[k,len(h.variants)] for k,h in HARNESSES.items() if h.prop=='%s']))" % (prop.lower(), prop)
    return json.loads(subprocess.run(['/venv/bin/python', '-c', code], capture_output=True, text=True, env=env, cwd='/verif').stdout.strip().splitlines()[-1])


def one(job):
    prop, h, n = job
    jobs = [{"h": h, "vi": i} for i in range(n)]
    p = subprocess.run(['/venv/bin/python', '-m', 'pvc.replay', '--sweep', json.dumps({"prop": prop, "jobs": jobs, "seeds": seeds, "box": 5})],
                       capture_output=True, text=True, cwd='/verif', env=env)
    out = [l for l in p.stdout.splitlines() if l.startswith('SWEEP-RESULT')]
    if not out:
        return prop, h, None
    r = json.loads(out[0][13:])
    return prop, h, (r['runs'], r['checks'], r['aborted'], len(r['failures']))


jobs = [(p, k, n) for p in props for k, n in harnesses(p) if not k.startswith('bounded') and not k.startswith('lemma')]
with ThreadPoolExecutor(14) as ex:
    for prop, h, r in ex.map(one, jobs):
        tag = 'NO-OUTPUT' if r is None else ('VACUOUS' if r[1] == 0 else ('FAIL' if r[3] else 'ok'))
        if tag != 'ok':
            print(tag, prop, h, r)
print('scanned', len(jobs), 'harnesses')
