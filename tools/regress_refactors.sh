#!/bin/bash
# developer tool: re-run every stored behaviour-preserving refactoring (refactors/<ID>/rN) against the current /repo HEAD and the
# current checks: none may produce a VIOLATION line.  One stream per property.  (demo.py of a refactoring needs reference data that
# is not kept, so only the check is run.)
cd "$(dirname "$0")/.."
ids=${@:-$(ls refactors)}
stream() { P=$1; for d in $(ls -d refactors/$P/r* | sort -V); do
    wt=/tmp/wt_ref_$$_$P; git -C /repo worktree add -q --detach $wt HEAD || { echo "$P $(basename $d) WORKTREE-FAILED"; continue; }
    if ! (cd $wt && git apply /verif/$d/patch.diff 2>/dev/null); then
        if ! (cd $wt && patch -p1 --fuzz=3 -s < /verif/$d/patch.diff >/dev/null 2>&1); then echo "$P $(basename $d) PATCH-DOES-NOT-APPLY"; git -C /repo worktree remove --force $wt; continue; fi
    fi
    out=$(cd /verif && PVC_REPO=$wt timeout 2400 python3-vt -m pvc check $P --tier quick 2>&1); rc=$?
    nv=$(echo "$out" | grep -c "^VIOLATION"); nu=$(echo "$out" | grep -c "^UNDECIDED")
    first=$(echo "$out" | grep "^VIOLATION" | sed 's/.*obligation=//' | cut -c1-120 | head -2 | tr '\n' ';')
    echo "$P $(basename $d) exit=$rc violations=$nv undecided=$nu $first"
    git -C /repo worktree remove --force $wt; done; }
export -f stream
printf '%s\n' $ids | xargs -P 10 -I{} bash -c 'stream {}' | tee /tmp/regress_refactors.log
! grep -q "violations=[1-9]" /tmp/regress_refactors.log
