#!/bin/bash
# usage: try_mutant.sh <prop> <dir with patch.diff demo.py>   -- apply to /repo, run quick check, always revert
prop=$1; d=$2
cd /repo || exit 9
git diff --quiet || { echo "repo dirty"; exit 9; }
git apply "$d/patch.diff" || { echo "patch does not apply"; exit 9; }
echo "--- demo with patch:"; (cd /repo && PYTHONPATH=/repo timeout 600 /venv/bin/python "$d/demo.py" >/dev/null 2>&1; echo "demo exit=$?")
echo "--- check with patch:"; (cd /verif && timeout 1500 python3-vt -m pvc check $prop --tier quick 2>&1 | grep -v "^  " | cut -c1-260 | head -${3:-12})
git -C /repo checkout -- .
echo "--- demo clean:"; (cd /repo && PYTHONPATH=/repo timeout 600 /venv/bin/python "$d/demo.py" >/dev/null 2>&1; echo "demo exit=$?")
