#!/bin/bash
# usage: try_mutant2.sh <prop> <abs dir with patch.diff demo.py> [nlines]
# like try_mutant.sh but never touches /repo: the patch is applied to a scratch worktree of /repo's HEAD (PVC_REPO points the
# checker at it), so it can run while other checks use /repo.  NOTE: evidence/<prop>.json is rewritten by the mutated run;
# re-run the clean check afterwards before committing evidence.
prop=$1; d=$2; wt=/tmp/wt_mut_$$
git -C /repo worktree add -q --detach $wt HEAD || exit 9
trap 'git -C /repo worktree remove --force $wt' EXIT
(cd $wt && git apply "$d/patch.diff") || { echo "patch does not apply"; exit 9; }
echo "--- demo with patch:"; (cd $wt && PYTHONPATH=$wt timeout 600 /venv/bin/python "$d/demo.py" >/dev/null 2>&1; echo "demo exit=$?")
echo "--- check with patch:"; (cd /verif && PVC_REPO=$wt timeout 1500 python3-vt -m pvc check $prop --tier quick 2>&1 | grep -v "^  " | cut -c1-260 | head -${3:-12})
