#!/bin/bash
# usage: eval_round.sh <dir pattern with %s> <ID> ...   -- run try_mutant2 on m1..m3 of each ID, print one line per mutant
pat=$1; shift
for P in "$@"; do for m in m1 m2 m3; do d=$(printf "$pat" $P)/$m; [ -f $d/patch.diff ] || { echo "$P $m MISSING"; continue; }
  out=$(/verif/tools/try_mutant2.sh $P $d 40 2>&1)
  demo=$(echo "$out" | grep -m1 "demo exit" ); nv=$(echo "$out" | grep -c "^VIOLATION"); first=$(echo "$out" | grep -m1 "^VIOLATION" | sed 's/.*obligation=//' | cut -c1-110)
  echo "$P $m $demo violations=$nv $first"; done; done
