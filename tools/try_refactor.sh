#!/bin/bash
# usage: try_refactor.sh <prop> <abs dir with patch.diff demo.py>   -- a behaviour-preserving change: the check must NOT raise an alarm
prop=$1; d=$2; wt=/tmp/wt_ref_$$
git -C /repo worktree add -q --detach $wt HEAD || exit 9
trap 'git -C /repo worktree remove --force $wt' EXIT
(cd $wt && git apply "$d/patch.diff") || { echo "patch does not apply"; exit 9; }
echo "--- demo with patch:"; (cd $wt && PYTHONPATH=$wt timeout 900 /venv/bin/python "$d/demo.py" >/dev/null 2>&1; echo "demo exit=$?")
echo "--- check with patch:"; (cd /verif && PVC_REPO=$wt timeout 2400 python3-vt -m pvc check $prop --tier quick 2>&1 | grep -v "^  " | cut -c1-260 | head -${3:-12}; echo "check exit=${PIPESTATUS[0]}")
