"""developer tool: run the bounded/concrete harnesses of a property under /venv python and list distinct failures.
usage: python3 tools/sweep.py C02 [seeds] [regex]"""
import json, subprocess, os, sys, re
prop = sys.argv[1]
seeds = int(sys.argv[2]) if len(sys.argv) > 2 else 30
rx = sys.argv[3] if len(sys.argv) > 3 else 'bounded'
sys.path.insert(0, '/verif')
env = dict(os.environ, PVC_MODE='concrete', PYTHONPATH='/verif:/repo')
code = "import sys,json; sys.path.insert(0,'/verif'); import importlib; importlib.import_module('contracts.%s'); from pvc.registry import HARNESSES; print(json.dumps([[k,len(h.variants)] for k,h in HARNESSES.items() if h.prop=='%s']))" % (prop.lower(), prop)
hs = json.loads(subprocess.run(['/venv/bin/python', '-c', code], capture_output=True, text=True, env=env, cwd='/verif').stdout.strip().splitlines()[-1])
jobs = [{"h": k, "vi": i} for k, n in hs if re.search(rx, k) for i in range(n)]
p = subprocess.run(['/venv/bin/python', '-m', 'pvc.replay', '--sweep', json.dumps({"prop": prop, "jobs": jobs, "seeds": seeds, "box": int(os.environ.get("BOX", "5"))})],
                   capture_output=True, text=True, cwd='/verif', env=env)
out = [l for l in p.stdout.splitlines() if l.startswith('SWEEP-RESULT')]
if not out:
    print(p.stdout[-3000:], p.stderr[-4000:])
    sys.exit(1)
r = json.loads(out[0][13:])
print('runs', r['runs'], 'checks', r['checks'], 'aborted', r['aborted'])
seen = {}
for f in r['failures']:
    k = (f['hname'], f['check'])
    seen.setdefault(k, []).append(f['seed'])
for (h, c), s in seen.items():
    ex = [f['exception'] for f in r['failures'] if (f['hname'], f['check']) == (h, c)][0]
    print('FAIL', h, c, 'seeds', s[:5], ex[:160])
