"""developer tool: run one harness variant in-process and print its obligations."""
import sys, time
sys.path.insert(0, '/verif')
from pvc import runner
prop = sys.argv[1]
mod, hs = runner.load_contracts(prop)
name = sys.argv[2]
vi = int(sys.argv[3]) if len(sys.argv) > 3 else 0
h = [x for x in hs if x.name == name][0]
t = time.time()
res = runner.explore(h, h.variants[vi], 'quick', 200)
print('wall', round(time.time() - t, 2), 'variant', h.variants[vi])
for k, o in res['obligations'].items():
    print(k, {kk: vv for kk, vv in o.items() if kk not in ('traceback',)})
print(res['errors'], res['npaths'], res['axioms'])
for k, o in res['obligations'].items():
    if 'traceback' in o:
        print(o['traceback'])
