"""developer tool: copy /tmp/seeded2_<ID>/m1..3 to seeded/<ID>/m4..6 with the detection notes given as JSON on stdin:
{"C07": {"m1": "...", "m2": "...", "m3": "..."}}"""
import json, os, shutil, sys
notes = json.load(sys.stdin)
off = int(sys.argv[1]) if len(sys.argv) > 1 else 3
src_pat = sys.argv[2] if len(sys.argv) > 2 else '/tmp/seeded2_%s'
for p, ms in notes.items():
    for m, d in ms.items():
        src = os.path.join(src_pat % p, m)
        dst = 'seeded/%s/m%d' % (p, int(m[1:]) + off)
        os.makedirs(dst, exist_ok=True)
        for fn in ('patch.diff', 'demo.py', 'meta.json', 'patch.orig.diff'):
            if os.path.exists(os.path.join(src, fn)):
                shutil.copy(os.path.join(src, fn), os.path.join(dst, fn))
        f = dst + '/meta.json'
        try:
            j = json.load(open(f))
        except Exception:
            j = {'property': p, 'raw': open(f).read()}
        j['round'] = off // 3 + 1
        j['detected_by'] = d
        j['confirmed'] = 'demo fails with patch / passes clean; `tools/try_mutant2.sh %s /verif/%s` -> VIOLATION lines, exit 1; clean tree exit 0' % (p, dst)
        json.dump(j, open(f, 'w'), indent=1)
        print('stored', dst)
