"""developer tool: refresh the per-property 'As built' paragraphs and heading levels of DESIGN.md Part II from MANIFEST.json."""
import json, re
man = {c['property_id']: c for c in json.load(open('MANIFEST.json'))['checks']}
s = open('DESIGN.md').read()
def repl(m):
    pid = m.group(1)
    c = man[pid]
    return '### %s — %s  (built as: %s)\n\n**As built.** %s\n\n*Unchecked / not covered:* %s\n\n*Design-phase text follows.*\n' % (
        pid, m.group(2), c['level_claimed']['category'], c['level_claimed']['text'], c['level_note'])
s, n = re.subn(r'### (C\d\d) — (.*?)  \(built as: \w+\)\n\n\*\*As built\.\*\* .*?\n\n\*Unchecked / not covered:\* .*?\n\n\*Design-phase text follows\.\*\n', repl, s, flags=re.S)
open('DESIGN.md', 'w').write(s)
print('refreshed', n, 'sections')
