#!/bin/bash
# usage: eval_notes.sh <dir pattern with %s> <ID> ...  -- run try_mutant2 on m1..m3 of each ID; print a JSON object
# {ID: {mN: "first violated obligations"}} for store_mutants.py (only mutants with at least one VIOLATION line are listed)
pat=$1; shift
echo "{"; sepP=""
for P in "$@"; do echo "$sepP\"$P\": {"; sepP=","; sep=""
  for m in m1 m2 m3; do d=$(printf "$pat" $P)/$m; [ -f $d/patch.diff ] || continue
    out=$(/verif/tools/try_mutant2.sh $P $d 40 2>&1)
    obl=$(echo "$out" | grep "^VIOLATION" | sed 's/.*obligation=//' | cut -c1-140 | head -3 | tr '\n' ';' | sed 's/"/\\"/g; s/;$//')
    [ -n "$obl" ] && { echo "$sep\"$m\": \"$obl\""; sep=","; } || echo "MISSED $P $m" >&2
  done; echo "}"; done
echo "}"
