"""C07 — polynomial bases equal their mathematical definitions (orthogonality: bounded, see the end)."""
from pvc.api import *
from contracts.polyspec import *

PJ = 'prysm.polynomials.jacobi.'
PH = 'prysm.polynomials.hermite.'
PL = 'prysm.polynomials.laguerre.'
PD = 'prysm.polynomials.dickson.'


def _x(kind):
    """evaluation point: scalar, 1-D or 2-D array of symbolic extent"""
    if kind == 'scalar':
        return Real('x')
    if kind == '1d':
        return Array('x', (Int('N', 1),))
    return Array('x', (Int('H', 1), Int('W', 1)))


XK = ['scalar', '1d', '2d']


@harness('C07', 'recurrence_abc/dlmf', variants=['general', 'n0-special'], fuc=['prysm.polynomials.jacobi.recurrence_abc'])
def abc_dlmf(v):
    """the (A,B,C) returned for real n >= 0, alpha, beta > -1 are DLMF 18.9.2's; no division by zero."""
    a, b = Real('alpha'), Real('beta')
    assume(And(a > -1, b > -1))
    if v == 'general':
        n = Int('n', 0)
        assume(Or(n >= 1, And(a + b != 0, a + b != -1)))
        A, B, C = call(PJ + 'recurrence_abc', n, a, b)
        A0, B0, C0 = jacobi_abc(n, a, b) if MODE == 'symbolic' else jacobi_abc(float(n), a, b)
        check('A', approx(A, A0))
        check('B', approx(B, B0))
        check('C', Or(n < 1, approx(C, C0)))          # C_0 multiplies P_{-1} = 0: no polynomial depends on it (the code returns 1)
    else:
        which = Bool('aplusb_is_zero')
        a2 = ite(which, -b, -1 - b)
        assume(a2 > -1)
        A, B, C = call(PJ + 'recurrence_abc', 0, a2, b)
        # at n = 0 only A_0, B_0 matter (P_{-1} = 0): limits of the general formulas
        check('A0', approx(A, (a2 + b + 2) / 2))
        check('B0', approx(B, (a2 - b) / 2))


@harness('C07', 'jacobi/def', variants=XK, fuc=['prysm.polynomials.jacobi.jacobi', 'prysm.polynomials.jacobi.recurrence_abc'])
def jacobi_def(kind):
    """jacobi(n, alpha, beta, x) = P_n^(alpha,beta)(x) (DLMF 18.9.1-2) for every order n >= 0 (loop cut by the
    invariant Pn = P_{i-1}, Pnm1 = P_{i-2}), alpha, beta > -1, every point, scalars and N-D arrays."""
    n = Int('n', 0)
    a, b = Real('alpha'), Real('beta')
    assume(And(a > -1, b > -1))
    x = _x(kind)
    inv = Rec3(JAC, lambda env: (env['alpha'], env['beta']), 'x', 'Pn', 'Pnm1', dead=('Pnm2', 'A', 'B', 'C'))
    with cut_loops(PJ + 'jacobi', {0: inv}) as f:
        out = f(n, a, b, x)
    check('equals-definition', same(out, spec_over(JAC, n, (a, b), x), x, 'out'))


def _simple(prop_name, path, F, nparams, cur, prev, dead, shift=0, also_cur=()):
    def h(kind):
        n = Int('n', 0)
        ps = tuple(Real('alpha') for _ in range(nparams))
        x = _x(kind)
        inv = Rec3(F, (lambda env: (env['alpha'],)) if nparams else (lambda env: ()), 'x', cur, prev, dead=dead, shift=shift, also_cur=also_cur)
        with cut_loops(path, {0: inv}) as f:
            out = f(n, *ps, x)
        check('equals-definition', same(out, spec_over(F, n, ps, x), x, 'out'))
    h.__doc__ = '%s equals its three-term-recurrence definition for every order and point' % path
    return harness('C07', prop_name, variants=XK, fuc=[path])(h)


_simple('hermite_He/def', PH + 'hermite_He', HE, 0, 'Pnm1', 'Pnm2', (), also_cur=('Pn',))
_simple('hermite_H/def', PH + 'hermite_H', HH, 0, 'Pnm1', 'Pnm2', (), also_cur=('Pn',))
_simple('dickson1/def', PD + 'dickson1', DICK1, 1, 'Pnm1', 'Pnm2', ('_',), also_cur=('Pn',))
_simple('dickson2/def', PD + 'dickson2', DICK2, 1, 'Pnm1', 'Pnm2', ('_',), also_cur=('Pn',))


_simple('laguerre/def', PL + 'laguerre', LAG, 1, 'Ln', 'Lnm1', ('n', 'A', 'B'), also_cur=('Lnp1',))


# ---------------------------------------------------------------------------------- Legendre
@harness('C07', 'legendre/def', variants=XK, fuc=['prysm.polynomials.legendre.legendre'])
def legendre_def(kind):
    """legendre(n, x) = P_n^(0,0)(x) (callee jacobi = its contract), and P^(0,0) obeys Bonnet's recurrence
    (n+1)P_{n+1} = (2n+1) x P_n - n P_{n-1} (lemma/legendre-bonnet)."""
    n = Int('n', 0)
    x = _x(kind)
    with stub('prysm.polynomials.legendre', 'jacobi', lambda n_, a, b, x_: spec_over(JAC, n_, (a, b), x_)):
        out = call('prysm.polynomials.legendre.legendre', n, x)
    check('is-jacobi-00', same(out, spec_over(JAC, n, (0, 0), x), x, 'out'))


@lemma('C07', 'lemma/legendre-bonnet')
def bonnet():
    """DLMF 18.9.2 at alpha = beta = 0 is Bonnet's recurrence: A_n = (2n+1)/(n+1), B_n = 0, C_n = n/(n+1)  (n >= 1)"""
    n = Int('n', 1)
    A, B, C = jacobi_abc(n, 0, 0)
    check('A', A == (2 * n + 1) / (n + 1))
    check('B', B == 0)
    check('C', C == n / (n + 1))


# ---------------------------------------------------------------------------------- Chebyshev (four kinds)
HALF = 0.5
CHEB = {
    1: dict(a=-HALF, b=-HALF, T=CHEB_T, norm=lambda n: 1),               # T_n(1) = 1
    2: dict(a=HALF, b=HALF, T=CHEB_U, norm=lambda n: n + 1),             # U_n(1) = n+1
    3: dict(a=-HALF, b=HALF, T=CHEB_V, norm=lambda n: 1),                # V_n(1) = 1
    4: dict(a=HALF, b=-HALF, T=CHEB_W, norm=lambda n: 2 * n + 1),        # W_n(1) = 2n+1
}


@lemma('C07', 'lemma/jacobi-at-one')
def jac_at_one():
    """P_n^(a,b)(1) = ((n+a)/n) P_{n-1}^(a,b)(1) for n >= 1 (hence P_n(1) > 0 for a > -1): induction on n."""
    a, b = Real('alpha'), Real('beta')
    assume(And(a > -1, b > -1))
    check('base', JAC.at(1, a, b, 1) == (1 + a) * JAC.at(0, a, b, 1))
    n = Int('n', 2)
    assume(Implies(n == 2, And(a + b != 0, a + b != -1)) if False else True)
    # induction hypothesis at n-1
    assume(JAC.at(n - 2, a, b, 1) == (n - 1) * JAC.at(n - 1, a, b, 1) / (n - 1 + a))
    check('step', n * JAC.at(n, a, b, 1) == (n + a) * JAC.at(n - 1, a, b, 1))


def _cheb_lemma(kind):
    d = CHEB[kind]
    a, b, T, norm = d['a'], d['b'], d['T'], d['norm']

    def lem():
        x = Real('x')
        J = lambda k, xx: JAC.at(k, a, b, xx)
        # the identity is stated multiplicatively:  norm(n) * P_n(x) = P_n(1) * Cheb_n(x)
        check('base-0', norm(0) * J(0, x) == J(0, 1) * T.at(0, x))
        check('base-1', norm(1) * J(1, x) == J(1, 1) * T.at(1, x))
        n = Int('n', 2)
        for k in (n - 1, n - 2):
            assume(J(k, x) == J(k, 1) * T.at(k, x) / norm(k))                       # induction hypotheses (solved form)
        for k in (n, n - 1):
            use_lemma('lemma/jacobi-at-one', J(k - 1, 1) == k * J(k, 1) / (k + a))
        check('step', norm(n) * J(n, x) == J(n, 1) * T.at(n, x))
    lem.__doc__ = ('norm(n) P_n^(%s,%s)(x) = P_n(1) * (Chebyshev polynomial of kind %d)_n(x) for all n: strong induction '
                   '(base n = 0, 1; step uses the two recurrences and lemma/jacobi-at-one)' % (a, b, kind))
    return lemma('C07', 'lemma/cheby%d-is-normalised-jacobi' % kind)(lem)


for _k in (1, 2, 3, 4):
    _cheb_lemma(_k)


@harness('C07', 'cheby/def', variants=[dict(kind=k, x=xk) for k in (1, 2, 3, 4) for xk in XK],
         fuc=['prysm.polynomials.cheby.cheby1', 'prysm.polynomials.cheby.cheby2', 'prysm.polynomials.cheby.cheby3',
              'prysm.polynomials.cheby.cheby4'])
def cheby_def(v):
    """cheby{1..4}(n, x) equal T_n, U_n, V_n, W_n (three-term recurrences 2x F_{n-1} - F_{n-2}) for every n and x:
    the code divides the right Jacobi polynomial by its value at 1 (callee jacobi = its contract) and the lemmas
    cheby*-is-normalised-jacobi / jacobi-at-one close the gap."""
    kind = v['kind']
    d = CHEB[kind]
    a, b, T, norm = d['a'], d['b'], d['T'], d['norm']
    n = Int('n', 0)
    x = _x(v['x'])
    use_lemma('lemma/jacobi-at-one (positivity)', JAC.at(n, a, b, 1) > 0)
    if isarray(x):
        ix = tuple(skolem(dd, 'q%d' % k) for k, dd in enumerate(x.shape))
        xe = elem(x, *ix)
    else:
        xe = x
    use_lemma('lemma/cheby%d-is-normalised-jacobi' % kind, norm(n) * JAC.at(n, a, b, xe) == JAC.at(n, a, b, 1) * T.at(n, xe))
    with stub('prysm.polynomials.cheby', 'jacobi', lambda n_, a_, b_, x_: spec_over(JAC, n_, (a_, b_), x_)):
        out = call('prysm.polynomials.cheby.cheby%d' % kind, n, x)
    if isarray(x):
        check('equals-definition', And(shape_is(out, *x.shape), approx(elem(out, *ix), T.at(n, xe), 1e-7)))
    else:
        check('equals-definition', approx(out, T.at(n, xe), 1e-7))


@lemma('C07', 'lemma/jacobi-at-one-positive')
def jac_at_one_pos():
    """P_n^(a,b)(1) > 0 for a > -1: induction with lemma/jacobi-at-one."""
    a, b = Real('alpha'), Real('beta')
    assume(And(a > -1, b > -1))
    check('base', JAC.at(0, a, b, 1) > 0)
    n = Int('n', 1)
    assume(JAC.at(n - 1, a, b, 1) > 0)
    use_lemma('lemma/jacobi-at-one', n * JAC.at(n, a, b, 1) == (n + a) * JAC.at(n - 1, a, b, 1))
    check('step', JAC.at(n, a, b, 1) > 0)


# ---------------------------------------------------------------------------------- Zernike, XY, Hopkins
def _polar(kind):
    if kind == 'scalar':
        return Array('r', (), lo=0, hi=1), Array('t', ())        # 0-D coordinate arrays
    if kind == '1d':
        N = Int('N', 1)
        return Array('r', (N,), lo=0, hi=1), Array('t', (N,))
    H, W = Int('H', 1), Int('W', 1)
    return Array('r', (H, W), lo=0, hi=1), Array('t', (H, W))


def _at(v, ix):
    return elem(v, *ix) if isarray(v) else v


def _pw(base, e):
    return base ** e


@harness('C07', 'zernike_nm/def', variants=[dict(x=xk, norm=nm) for xk in XK for nm in (True, False)],
         fuc=['prysm.polynomials.zernike.zernike_nm', 'prysm.polynomials.zernike.zernike_norm', 'prysm.mathops.kronecker'])
def zernike_def(v):
    """Z_n^m = N_nm r^|m| P^(0,|m|)_{(n-|m|)/2}(2r^2-1) {cos(m t) | sin(|m| t) | 1}, N = sqrt(2(n+1)/(1+delta_m0)),
    for every valid (n, m) (callee jacobi = its contract)."""
    n, m = Int('n', 0), Int('m')
    am = ite(m >= 0, m, -m)
    assume(And(am <= n, (n - am) % 2 == 0))
    r, t = _polar(v['x'])
    with stub('prysm.polynomials.zernike', 'jacobi', lambda n_, a_, b_, x_: spec_over(JAC, n_, (a_, b_), x_)):
        out = call('prysm.polynomials.zernike.zernike_nm', n, m, r, t, norm=v['norm'])
    ix = tuple(skolem(d, 'q%d' % k) for k, d in enumerate(r.shape)) if isarray(r) else ()
    re, te = _at(r, ix), _at(t, ix)
    rad = JAC.at((n - am) // 2, 0, am, 2 * re * re - 1)
    # python branching: on each path the code has already decided the sign of m, so no new fork arises
    if m == 0:
        az = 1
    elif m < 0:
        az = _pw(re, am) * sin(am * te)
    else:
        az = _pw(re, am) * cos(m * te)
    if v['norm']:
        N = sqrt(2 * (n + 1) / (1 + (1 if m == 0 else 0)))
    else:
        N = 1
    want = rad * az * N
    got = _at(out, ix)
    check('equals-definition', And(shape_is(out, *r.shape) if isarray(r) else True, approx(got, want, 1e-7)))


@harness('C07', 'xy/def', variants=[dict(cg=c, rank=k) for c in (True, False) for k in (1, 2)], fuc=['prysm.polynomials.xy.xy'])
def xy_def(v):
    """xy(m, n, x, y) = x^m y^n on the grid the arguments define."""
    m, n = Int('m', 0), Int('n', 0)
    H, W = Int('H', 1), Int('W', 1)
    if v['rank'] == 2:
        x, y = Array('x', (H, W)), Array('y', (H, W))
        i, j = idx(H, 'i'), idx(W, 'j')
        if v['cg']:
            # cartesian grid: x varies along columns only, y along rows only (what optimize_xy_separable assumes)
            assume(And(elem(x, i, j) == elem(x, 0, j), elem(y, i, j) == elem(y, i, 0)))
        if MODE != 'symbolic':
            import numpy as np
            if v['cg']:
                x[:] = x[0:1, :]
                y[:] = y[:, 0:1]
        out = call('prysm.polynomials.xy.xy', m, n, x, y, cartesian_grid=v['cg'])
        check('value', And(shape_is(out, H, W), approx(elem(out, i, j), _pw(elem(x, i, j), m) * _pw(elem(y, i, j), n), 1e-7)))
    else:
        x, y = Array('x', (W,)), Array('y', (H,))
        i, j = idx(H, 'i'), idx(W, 'j')
        out = call('prysm.polynomials.xy.xy', m, n, x, y, cartesian_grid=v['cg']) if v['cg'] else None
        if v['cg']:
            check('value', And(shape_is(out, H, W), approx(elem(out, i, j), _pw(elem(x, j), m) * _pw(elem(y, i), n), 1e-7)))
        else:
            check('not-applicable', True)


@harness('C07', 'hopkins/def', variants=XK, fuc=['prysm.polynomials.hopkins'])
def hopkins_def(kind):
    """W_abc = H^c r^b cos(a t) (a >= 0) or H^c r^b sin(|a| t) (a < 0)."""
    a, b, c = Int('a'), Int('b', 0), Int('c', 0)
    r, t = _polar(kind)
    Hf = Real('Hfield')
    out = call('prysm.polynomials.hopkins', a, b, c, r, t, Hf)
    ix = tuple(skolem(d, 'q%d' % k) for k, d in enumerate(r.shape)) if isarray(r) else ()
    re, te = _at(r, ix), _at(t, ix)
    if MODE == 'symbolic':
        trig = ite(a < 0, sin(abs(a) * te), cos(a * te))
    else:
        import math
        trig = math.sin(abs(a) * te) if a < 0 else math.cos(a * te)
    check('equals-definition', approx(_at(out, ix), trig * _pw(re, b) * _pw(Hf, c), 1e-7))


@harness('C07', 'Qcon/def', variants=XK, fuc=['prysm.polynomials.qpoly.Qcon'])
def qcon_def(kind):
    """Qcon_n(x) = x^4 P_n^(0,4)(2x^2 - 1)  (Forbes 2007; callee jacobi = its contract)."""
    n = Int('n', 0)
    x = _x(kind)
    with stub('prysm.polynomials.qpoly', 'jacobi', lambda n_, a_, b_, x_: spec_over(JAC, n_, (a_, b_), x_)):
        out = call('prysm.polynomials.qpoly.Qcon', n, x)
    ix = tuple(skolem(d, 'q%d' % k) for k, d in enumerate(x.shape)) if isarray(x) else ()
    xe = _at(x, ix)
    check('equals-definition', approx(_at(out, ix), JAC.at(n, 0, 4, 2 * xe * xe - 1) * xe * xe * xe * xe, 1e-7))


# ---------------------------------------------------------------------------------- orthogonality: BOUNDED
@harness('C07', 'bounded/orthogonality', kind='bounded', seeds=1,
         variants=['zernike-disk', 'jacobi-weight', 'qbfs-slopes', 'q2d-slopes', 'families-vs-scipy', 'every-evaluation-route', 'hermite-laguerre-weights'],
         fuc=['prysm.polynomials.zernike.zernike_nm', 'prysm.polynomials.jacobi.jacobi', 'prysm.polynomials.qpoly.Qbfs',
              'prysm.polynomials.hermite.hermite_He', 'prysm.polynomials.hermite.hermite_H', 'prysm.polynomials.laguerre.laguerre',
              'prysm.polynomials.qpoly.Q2d', 'prysm.polynomials.qpoly.Q2d_seq', 'prysm.polynomials.laguerre.laguerre_seq',
              'prysm.polynomials.jacobi.jacobi_seq', 'prysm.polynomials.hermite.hermite_He_seq', 'prysm.polynomials.hermite.hermite_H_seq',
              'prysm.polynomials.qpoly.compute_z_zprime_Q2d', 'prysm.polynomials.qpoly.clenshaw_qbfs', 'prysm.polynomials.qpoly.change_basis_Qbfs_to_Pn',
              'prysm.polynomials.zernike.zernike_nm_seq'])
def orthogonality(which):
    """BOUNDED (a theorem about the definitions, checked on the real functions by exact Gauss quadrature, not proved):
    Zernike unit RMS / mutual orthogonality over the unit disk for n <= 8 (quick) / 14; Jacobi-family orthogonality under
    (1-x)^a (1+x)^b for n <= 10 / 20 and four (a,b) incl. half-integers; Qbfs slope orthonormality under Forbes'
    (2/pi) int_0^1 . (1-u^2)^(-1/2) du for n <= 6 / 10; Hermite/Laguerre under their weights."""
    import os
    import numpy as np
    from scipy.special import roots_jacobi, roots_legendre, roots_hermite, roots_hermitenorm, roots_genlaguerre
    big = os.environ.get('VERIF_TIER', 'quick') == 'thorough'
    if which == 'zernike-disk':
        nmax = 14 if big else 8
        znm = get('prysm.polynomials.zernike.zernike_nm')
        xr, wr = roots_legendre(nmax + 4)
        r = (xr + 1) / 2
        wr = wr / 2 * r                      # int_0^1 f(r) r dr
        K = 2 * nmax + 3
        th = np.arange(K) * 2 * np.pi / K
        R, T = np.meshgrid(r, th)
        W = np.outer(np.full(K, 2 * np.pi / K), wr) / np.pi
        nms = [(n, m) for n in range(nmax + 1) for m in range(-n, n + 1, 2)]
        Z = np.array([znm(n, m, R.copy(), T.copy(), norm=True) for n, m in nms])
        G = np.einsum('iab,jab,ab->ij', Z, Z, W)
        check('orthonormal', bool(np.allclose(G, np.eye(len(nms)), atol=1e-9)))
        note('bounded: zernike orthonormality over the disk, %d modes (n <= %d), exact quadrature' % (len(nms), nmax))
    elif which == 'jacobi-weight':
        nmax = 20 if big else 10
        jac = get('prysm.polynomials.jacobi.jacobi')
        ok = True
        for a, b in ((0.0, 0.0), (-0.5, -0.5), (0.5, -0.5), (1.5, 2.0), (0.0, 4.0)):
            x, w = roots_jacobi(nmax + 2, a, b)
            P = np.array([jac(n, a, b, x) for n in range(nmax + 1)])
            G = np.einsum('ia,ja,a->ij', P, P, w)
            off = G - np.diag(np.diag(G))
            ok = ok and bool(np.allclose(off, 0, atol=1e-9 * max(1, np.abs(np.diag(G)).max()))) and bool((np.diag(G) > 0).all())
        check('orthogonal-under-weight', ok)
        # the weight itself on the CLOSED interval: (1-x)^alpha (1+x)^beta with 0^0 = 1 at an end point whose exponent is zero
        wt = get('prysm.polynomials.jacobi.weight')
        xs = np.array([-1.0, -0.5, 0.0, 0.25, 1.0])
        okw = True
        for a, b in ((0.0, 0.0), (0.0, 2.0), (3.0, 0.0), (1.5, 2.0), (0.0, 0.5)):
            okw = okw and bool(np.allclose(wt(a, b, xs), (1 - xs) ** a * (1 + xs) ** b, rtol=1e-12, atol=0, equal_nan=False))
        check('weight-on-the-closed-interval', okw)
        note('bounded: jacobi orthogonality n <= %d, five (alpha,beta)' % nmax)
    elif which == 'qbfs-slopes':
        nmax = 10 if big else 6
        Q = get('prysm.polynomials.qpoly.Qbfs')
        x, w = roots_jacobi(4 * nmax + 40, -0.5, -0.5)
        u, ww = x[x > 0], w[x > 0]
        h = 1e-6
        S = np.array([(Q(n, u + h) - Q(n, u - h)) / (2 * h) for n in range(nmax + 1)])
        G = np.einsum('ia,ja,a->ij', S, S, ww) * 2 / np.pi
        check('slope-orthonormal', bool(np.allclose(G, np.eye(nmax + 1), atol=1e-5)))
        note('bounded: Qbfs slope orthonormality n <= %d (central differences, Gauss-Chebyshev quadrature)' % nmax)
    elif which == 'q2d-slopes':
        # Forbes (Opt. Express 20, 2483): for fixed m, <grad Q_n^m . grad Q_n'^m> = delta_nn' under the Chebyshev-weighted mean
        # (1/2pi) int dtheta (2/pi) int_0^1 . (1-u^2)^(-1/2) du.  With Q = R(u) cos(m theta): k (2/pi) int_0^1 (R'R'' + m^2 R R''/u^2)/sqrt(1-u^2),
        # k = 1/2 (m != 0) or 1.  R is a polynomial: recovered exactly by interpolation, integrated exactly by Gauss-Chebyshev.
        from numpy.polynomial import polynomial as Pn
        nmax = 9 if big else 6
        Q2d, Q2d_seq = get('prysm.polynomials.qpoly.Q2d'), get('prysm.polynomials.qpoly.Q2d_seq')
        K = 96
        kk = np.arange(1, K + 1)
        nodes = np.cos((2 * kk - 1) * np.pi / (2 * K))

        def radial(ev, n, m):
            deg = abs(m) + 2 * n + (4 if m == 0 else 0)
            xs = np.cos(np.pi * (np.arange(deg + 1) + .5) / (deg + 1))
            tt = np.zeros_like(xs) if m >= 0 else np.full_like(xs, np.pi / (2 * abs(m)))
            return Pn.polyfit(xs, ev(n, m, xs, tt), deg)
        single = lambda n, m, u, t: Q2d(n, m, u, t)
        seq = lambda n, m, u, t: Q2d_seq([(i, m) for i in range(n + 1)], u, t)[n]
        ok = True
        for m in (0, 1, -1, 2, 3, -3, 4, 6):
            for ev in (single, seq):
                polys = [radial(ev, n, m) for n in range(nmax + 1)]
                G = np.empty((nmax + 1, nmax + 1))
                for i, ci in enumerate(polys):
                    for j, cj in enumerate(polys):
                        integrand = Pn.polyval(nodes, Pn.polyder(ci)) * Pn.polyval(nodes, Pn.polyder(cj)) + \
                            m * m * Pn.polyval(nodes, ci) * Pn.polyval(nodes, cj) / nodes ** 2
                        G[i, j] = integrand.sum() / K * (1 if m == 0 else .5)
                ok = ok and bool(np.allclose(G, np.eye(nmax + 1), atol=1e-7))
        check('slope-orthonormal', ok)
        note('bounded: 2D-Q slope orthonormality n <= %d, m in {0, +-1, 2, +-3, 4, 6}, Q2d and Q2d_seq (exact interpolation + Gauss-Chebyshev)' % nmax)
    elif which == 'families-vs-scipy':
        # an independent implementation of the same textbook definitions (scipy.special), for the scalar and the sequence form of
        # each family, on dense, gapped, late-starting and single-order lists
        import scipy.special as sp
        rng = np.random.default_rng(7)
        x = rng.uniform(-0.95, 0.95, 9)
        P = 'prysm.polynomials.'
        lists = [[0], [1], [2], [3], [0, 1], [0, 2], [1, 3], [0, 1, 3, 5], [3, 5], [0, 1, 2, 3, 4, 5, 6, 7], [4], [0, 1, 4, 9]]
        ok = {}
        for ns in lists:
            for a, b in ((0.0, 0.0), (-0.5, -0.5), (1.5, 2.0), (-0.25, -0.75), (0.3, -0.3), (0.1 + 0.2, -0.3), (0.1 + 0.2 - 1.0, -0.3)):
                want = [sp.eval_jacobi(n, a, b, x) for n in ns]
                ok['jacobi'] = ok.get('jacobi', True) and bool(np.allclose(list(get(P + 'jacobi.jacobi_seq')(ns, a, b, x)), want, rtol=1e-9, atol=1e-9)) \
                    and bool(np.allclose([get(P + 'jacobi.jacobi')(n, a, b, x) for n in ns], want, rtol=1e-9, atol=1e-9))
            for al in (0.0, 0.5, 2.0):
                want = [sp.eval_genlaguerre(n, al, x + 1) for n in ns]
                ok['laguerre'] = ok.get('laguerre', True) and bool(np.allclose(list(get(P + 'laguerre.laguerre_seq')(ns, al, x + 1)), want, rtol=1e-9, atol=1e-9)) \
                    and bool(np.allclose([get(P + 'laguerre.laguerre')(n, al, x + 1) for n in ns], want, rtol=1e-9, atol=1e-9))
            for nm, fs, ev in (('hermite_He', 'hermite.hermite_He', sp.eval_hermitenorm), ('hermite_H', 'hermite.hermite_H', sp.eval_hermite),
                               ('legendre', 'legendre.legendre', sp.eval_legendre), ('cheby1', 'cheby.cheby1', sp.eval_chebyt),
                               ('cheby2', 'cheby.cheby2', sp.eval_chebyu)):
                want = [ev(n, x) for n in ns]
                ok[nm] = ok.get(nm, True) and bool(np.allclose(list(get(P + fs + '_seq')(ns, x)), want, rtol=1e-9, atol=1e-9)) \
                    and bool(np.allclose([get(P + fs)(n, x) for n in ns], want, rtol=1e-9, atol=1e-9))
        for k_, v_ in sorted(ok.items()):
            check(k_ + '-scalar-and-sequence-forms-equal-scipy', v_)
        # first Jacobi recurrence step for alpha + beta in {0, -1} with alpha != beta (the special-cased n = 0 coefficients)
        abc = get(P + 'jacobi.recurrence_abc')
        good = True
        for a, b in ((-0.25, -0.75), (-0.9, -0.1), (0.3, -0.3), (-0.5, -0.5), (0.5, -0.5), (0.1 + 0.2, -0.3), (0.1 + 0.2 - 1.0, -0.3), (1.3, 0.4)):
            A, B, C = abc(0, a, b)
            good = good and bool(np.allclose(A * x + B, sp.eval_jacobi(1, a, b, x), rtol=1e-12, atol=1e-12))
        check('jacobi-first-recurrence-step', good)
    elif which == 'every-evaluation-route':
        # each member of the Q and Zernike families is reachable by more than one routine (single mode, sequence in any order,
        # Clenshaw sum with one unit coefficient, repeated evaluation from the same coefficient array): all must give the polynomial
        P = 'prysm.polynomials.'
        Q = P + 'qpoly.'
        rng = np.random.default_rng(11)
        u = rng.uniform(0.05, 0.95, (3, 4))
        t = rng.uniform(-3, 3, (3, 4))
        nmax = 9 if big else 6
        ok_q2d = ok_qbfs = ok_qcon = ok_alias = True
        for m in (1, 2, 3, 4):
            for n in range(nmax + 1):
                for sgn in (1, -1):
                    cs = np.zeros(n + 1)
                    cs[n] = 1.0
                    ams, bms = [[] for _ in range(m)], [[] for _ in range(m)]
                    (ams if sgn > 0 else bms)[m - 1] = cs
                    z = get(Q + 'compute_z_zprime_Q2d')([], ams, bms, u, t)[0]
                    ok_q2d = ok_q2d and bool(np.allclose(z, get(Q + 'Q2d')(n, sgn * m, u, t), atol=1e-9))
        for n in range(nmax + 1):
            cs = np.zeros(n + 1)
            cs[n] = 1.0
            keep = cs.copy()
            want = get(Q + 'Qbfs')(n, u)
            for _ in range(2):          # twice from the same float64 array
                ok_qbfs = ok_qbfs and bool(np.allclose(get(Q + 'clenshaw_qbfs')(cs, u * u), want, atol=1e-9))
                ok_qbfs = ok_qbfs and bool(np.allclose(get(Q + 'compute_z_zprime_Qbfs')(cs, u, u * u)[0], want, atol=1e-9))
                ok_qbfs = ok_qbfs and bool(np.allclose(get(Q + 'compute_z_zprime_Q2d')(cs, [], [], u, t)[0], want, atol=1e-9))
            ok_alias = ok_alias and bool(np.array_equal(cs, keep))
            ok_qcon = ok_qcon and bool(np.allclose(get(Q + 'compute_z_zprime_Qcon')(cs, u, u * u)[0], get(Q + 'Qcon')(n, u), atol=1e-9))
        check('q2d-unit-coefficient-sum-is-the-mode', ok_q2d)
        check('qbfs-unit-coefficient-sum-is-the-mode-on-every-call', ok_qbfs)
        check('qcon-unit-coefficient-sum-is-the-mode', ok_qcon)
        check('coefficient-arrays-untouched', ok_alias)
        znm, zseq = get(P + 'zernike.zernike_nm'), get(P + 'zernike.zernike_nm_seq')
        ok_z = True
        for nms in ([(8, 0), (6, 0), (4, 0), (2, 0)], [(2, 2), (2, -2)], [(3, 1), (1, 1), (5, 1), (3, -1)], [(4, 2), (2, 2), (6, -2), (0, 0)],
                    [tuple(int(v) for v in poly) for poly in (get(P + 'zernike.noll_to_nm')(j) for j in range(15, 0, -1))]):
            for norm in (True, False):
                got = list(zseq(nms, u, t, norm=norm))
                ok_z = ok_z and all(np.allclose(g_, znm(n_, m_, u, t, norm=norm), atol=1e-9) for g_, (n_, m_) in zip(got, nms))
        check('zernike-sequence-in-any-order-is-the-mode', ok_z)
    else:
        nmax = 14 if big else 8
        He, Hh, Lg = get('prysm.polynomials.hermite.hermite_He'), get('prysm.polynomials.hermite.hermite_H'), get('prysm.polynomials.laguerre.laguerre')
        ok = True
        for f, roots in ((He, roots_hermitenorm), (Hh, roots_hermite)):
            x, w = roots(nmax + 2)
            P = np.array([f(n, x) for n in range(nmax + 1)])
            G = np.einsum('ia,ja,a->ij', P, P, w)
            off = G - np.diag(np.diag(G))
            ok = ok and bool(np.allclose(off / np.sqrt(np.outer(np.diag(G), np.diag(G))), 0, atol=1e-9))
        for al in (0.0, 1.5):
            x, w = roots_genlaguerre(nmax + 2, al)
            P = np.array([Lg(n, al, x) for n in range(nmax + 1)])
            G = np.einsum('ia,ja,a->ij', P, P, w)
            off = G - np.diag(np.diag(G))
            ok = ok and bool(np.allclose(off / np.sqrt(np.outer(np.diag(G), np.diag(G))), 0, atol=1e-9))
        check('orthogonal-under-weight', ok)
