"""C07 — polynomial bases equal their mathematical definitions (orthogonality: bounded, see the end)."""
from pvc.api import *
from contracts.polyspec import *

PJ = 'prysm.polynomials.jacobi.'
PH = 'prysm.polynomials.hermite.'
PL = 'prysm.polynomials.laguerre.'
PD = 'prysm.polynomials.dickson.'


def _x(kind):
    """evaluation point: scalar, 1-D or 2-D array of symbolic extent"""
    if kind == 'scalar':
        return Real('x')
    if kind == '1d':
        return Array('x', (Int('N', 1),))
    return Array('x', (Int('H', 1), Int('W', 1)))


XK = ['scalar', '1d', '2d']


@harness('C07', 'recurrence_abc/dlmf', variants=['general', 'n0-special'], fuc=['prysm.polynomials.jacobi.recurrence_abc'])
def abc_dlmf(v):
    """the (A,B,C) returned for real n >= 0, alpha, beta > -1 are DLMF 18.9.2's; no division by zero."""
    a, b = Real('alpha'), Real('beta')
    assume(And(a > -1, b > -1))
    if v == 'general':
        n = Int('n', 0)
        assume(Or(n >= 1, And(a + b != 0, a + b != -1)))
        A, B, C = call(PJ + 'recurrence_abc', n, a, b)
        A0, B0, C0 = jacobi_abc(n, a, b) if MODE == 'symbolic' else jacobi_abc(float(n), a, b)
        check('A', approx(A, A0))
        check('B', approx(B, B0))
        check('C', approx(C, C0))
    else:
        which = Bool('aplusb_is_zero')
        a2 = ite(which, -b, -1 - b)
        assume(a2 > -1)
        A, B, C = call(PJ + 'recurrence_abc', 0, a2, b)
        # at n = 0 only A_0, B_0 matter (P_{-1} = 0): limits of the general formulas
        check('A0', approx(A, (a2 + b + 2) / 2))
        check('B0', approx(B, (a2 - b) / 2))


@harness('C07', 'jacobi/def', variants=XK, fuc=['prysm.polynomials.jacobi.jacobi', 'prysm.polynomials.jacobi.recurrence_abc'])
def jacobi_def(kind):
    """jacobi(n, alpha, beta, x) = P_n^(alpha,beta)(x) (DLMF 18.9.1-2) for every order n >= 0 (loop cut by the
    invariant Pn = P_{i-1}, Pnm1 = P_{i-2}), alpha, beta > -1, every point, scalars and N-D arrays."""
    n = Int('n', 0)
    a, b = Real('alpha'), Real('beta')
    assume(And(a > -1, b > -1))
    x = _x(kind)
    inv = Rec3(JAC, lambda env: (env['alpha'], env['beta']), 'x', 'Pn', 'Pnm1', dead=('Pnm2', 'A', 'B', 'C'))
    with cut_loops(PJ + 'jacobi', {0: inv}) as f:
        out = f(n, a, b, x)
    check('equals-definition', same(out, spec_over(JAC, n, (a, b), x), x, 'out'))


def _simple(prop_name, path, F, nparams, cur, prev, dead, shift=0):
    def h(kind):
        n = Int('n', 0)
        ps = tuple(Real('alpha') for _ in range(nparams))
        x = _x(kind)
        inv = Rec3(F, (lambda env: (env['alpha'],)) if nparams else (lambda env: ()), 'x', cur, prev, dead=dead, shift=shift)
        with cut_loops(path, {0: inv}) as f:
            out = f(n, *ps, x)
        check('equals-definition', same(out, spec_over(F, n, ps, x), x, 'out'))
    h.__doc__ = '%s equals its three-term-recurrence definition for every order and point' % path
    return harness('C07', prop_name, variants=XK, fuc=[path])(h)


_simple('hermite_He/def', PH + 'hermite_He', HE, 0, 'Pnm1', 'Pnm2', ('Pn',))
_simple('hermite_H/def', PH + 'hermite_H', HH, 0, 'Pnm1', 'Pnm2', ('Pn',))
_simple('dickson1/def', PD + 'dickson1', DICK1, 1, 'Pnm1', 'Pnm2', ('Pn', '_'))
_simple('dickson2/def', PD + 'dickson2', DICK2, 1, 'Pnm1', 'Pnm2', ('Pn', '_'))
