"""C04 — one origin convention: sample n//2 is zero for every grid, pad, crop, metric.

Top-level postconditions are transcribed from the property statement; shapes and helper
preconditions from the call sites in /repo.  All lengths are symbolic (no bound)."""
from pvc.api import *

FT = 'prysm.fttools.'


@harness('C04', 'fftrange/def', fuc=['prysm.fttools.fftrange'])
def fftrange_def():
    """length n, element k equals k - n//2, hence an exact zero at index n//2."""
    n = Int('n', 1)
    r = call(FT + 'fftrange', n)
    check('shape', shape_is(r, n))
    k = idx(n, 'k')
    check('value', elem(r, k) == k - n // 2)
    check('zero-at-origin', elem(r, n // 2) == 0)


def _pad_args(variant, a, m, n):
    """build (kwargs, expected out shape) for the out_shape/Q calling conventions"""
    how = variant['shape']
    if how == 'tuple':
        M, N = Int('M', 1), Int('N', 1)
        assume(And(M >= m, N >= n))
        return dict(out_shape=(M, N)), (M, N)
    if how == 'int':
        M = Int('M', 1)
        assume(And(M >= m, M >= n))
        return dict(out_shape=M), (M, M)
    if how == 'Qint':
        Q = Int('Q', 1)
        return dict(Q=Q), (m * Q, n * Q)
    if how == 'Qreal':
        Q = Real('Q', 1)
        return dict(Q=Q), (ceil(m * Q), ceil(n * Q))
    raise ValueError(how)


@harness('C04', 'pad2d/placement',
         variants=[dict(shape=s, fill=f) for s in ('tuple', 'int', 'Qint', 'Qreal') for f in ('zero', 'value')],
         fuc=['prysm.fttools.pad2d'])
def pad2d_placement(v):
    """out has the requested shape; out[M//2+k, N//2+l] = in[m//2+k, n//2+l] wherever the
    right side exists, = fill value elsewhere (mode='constant')."""
    m, n = Int('m', 1), Int('n', 1)
    a = Array('a', (m, n))
    kw, (M, N) = _pad_args(v, a, m, n)
    if v['fill'] == 'value':
        val = Real('val')
        kw['value'] = val
    else:
        val = 0
    out = call(FT + 'pad2d', a, **kw)
    check('shape', shape_is(out, M, N))
    i, j = idx(M, 'i'), idx(N, 'j')
    # source index under the origin convention
    si, sj = i - M // 2 + m // 2, j - N // 2 + n // 2
    inside = And(si >= 0, si < m, sj >= 0, sj < n)
    check('origin-to-origin', Implies(inside, elem(out, i, j) == elem(a, ite(inside, si, 0), ite(inside, sj, 0))))
    check('fill-elsewhere', Implies(Not(inside), elem(out, i, j) == val))
    check('origin-sample', elem(out, M // 2, N // 2) == elem(a, m // 2, n // 2))


@harness('C04', 'pad2d/placement-npmodes', variants=['edge', 'wrap'], fuc=['prysm.fttools.pad2d'])
def pad2d_modes(v):
    """non-constant np.pad modes: the interior copy still maps origin to origin."""
    m, n = Int('m', 1), Int('n', 1)
    M, N = Int('M', 1), Int('N', 1)
    assume(And(M >= m, N >= n))
    a = Array('a', (m, n))
    out = call(FT + 'pad2d', a, out_shape=(M, N), mode=v)
    check('shape', shape_is(out, M, N))
    k, l = idx(m, 'k'), idx(n, 'l')
    check('origin-to-origin', elem(out, M // 2 - m // 2 + k, N // 2 - n // 2 + l) == elem(a, k, l))


@harness('C04', 'crop_center/placement', variants=['tuple', 'int'], fuc=['prysm.fttools.crop_center'])
def crop_placement(v):
    """out[o//2 + k] = in[i//2 + k] on both axes, shape = out_shape."""
    m, n = Int('m', 1), Int('n', 1)
    a = Array('a', (m, n))
    if v == 'tuple':
        M, N = Int('M', 1), Int('N', 1)
        assume(And(M <= m, N <= n))
        out = call(FT + 'crop_center', a, (M, N))
    else:
        M = Int('M', 1)
        N = M
        assume(And(M <= m, M <= n))
        out = call(FT + 'crop_center', a, M)
    check('shape', shape_is(out, M, N))
    i, j = idx(M, 'i'), idx(N, 'j')
    check('origin-to-origin', elem(out, i, j) == elem(a, i - M // 2 + m // 2, j - N // 2 + n // 2))
    check('origin-sample', elem(out, M // 2, N // 2) == elem(a, m // 2, n // 2))


@harness('C04', 'crop_center∘pad2d/exact-inverse', fuc=['prysm.fttools.pad2d', 'prysm.fttools.crop_center'])
def crop_undoes_pad():
    """crop_center(pad2d(a, out_shape), a.shape) == a for every parity combination."""
    m, n = Int('m', 1), Int('n', 1)
    M, N = Int('M', 1), Int('N', 1)
    assume(And(M >= m, N >= n))
    a = Array('a', (m, n))
    p = call(FT + 'pad2d', a, out_shape=(M, N))
    c = call(FT + 'crop_center', p, (m, n))
    check('shape', shape_is(c, m, n))
    k, l = idx(m, 'k'), idx(n, 'l')
    check('identity', elem(c, k, l) == elem(a, k, l))


@harness('C04', 'forward_ft_unit/zero-at-origin', variants=[True, False],
         fuc=['prysm.fttools.forward_ft_unit', 'prysm.fttools.fftfreq'])
def ft_unit(shift):
    """shifted: element k = (k - n//2)/(n dx) (zero at n//2); unshifted: zero at index 0."""
    n = Int('n', 1)
    dx = Real('dx', pos=True)
    u = call(FT + 'forward_ft_unit', dx, n, shift=shift)
    check('shape', shape_is(u, n))
    k = idx(n, 'k')
    if shift:
        check('value', elem(u, k) * (n * dx) == k - n // 2)
        check('zero-at-origin', elem(u, n // 2) == 0)
    else:
        check('value', elem(u, k) * (n * dx) == ite(k <= (n - 1) // 2, k, k - n))
        check('zero-at-origin', elem(u, 0) == 0)


@harness('C04', 'make_xy_grid/zero-at-origin',
         variants=[dict(shape=s, how=h, grid=g) for s in ('tuple', 'int') for h in ('dx', 'diameter') for g in (True, False)],
         fuc=['prysm.coordinates.make_xy_grid'])
def xy_grid(v):
    """x[i,j] = (j - w//2) dx, y[i,j] = (i - h//2) dx; with diameter: dx = diameter/max(shape)."""
    if v['shape'] == 'tuple':
        h, w = Int('h', 1), Int('w', 1)
        shp = (h, w)
    else:
        h = Int('h', 1)
        w = h
        shp = h
    if v['how'] == 'dx':
        dx = Real('dx', nonzero=True)
        x, y = call('prysm.coordinates.make_xy_grid', shp, dx=dx, grid=v['grid'])
    else:
        dia = Real('dia', nonzero=True)
        x, y = call('prysm.coordinates.make_xy_grid', shp, diameter=dia, grid=v['grid'])
        dx = dia / smax(h, w)
    i, j = idx(h, 'i'), idx(w, 'j')
    if v['grid']:
        check('shape', And(shape_is(x, h, w), shape_is(y, h, w)))
        check('x', elem(x, i, j) == (j - w // 2) * dx)
        check('y', elem(y, i, j) == (i - h // 2) * dx)
        check('zero-at-origin', And(elem(x, h // 2, w // 2) == 0, elem(y, h // 2, w // 2) == 0))
    else:
        check('shape', And(shape_is(x, w), shape_is(y, h)))
        check('x', elem(x, j) == (j - w // 2) * dx)
        check('y', elem(y, i) == (i - h // 2) * dx)
        check('zero-at-origin', And(elem(x, w // 2) == 0, elem(y, h // 2) == 0))


# ------------------------------------------------------------------ functional contracts (callee specs)
def spec_pad2d(array, Q=2, value=0, mode='constant', out_shape=None):
    """functional form of pad2d's contract (mode='constant'), proved against the real body by
    pad2d/placement; used as the callee when verifying callers (modular reasoning)."""
    m, n = array.shape
    if out_shape is None:
        M, N = ceil(m * Q), ceil(n * Q)
    elif isinstance(out_shape, (tuple, list)):
        M, N = out_shape
    else:
        M = N = out_shape
    from pvc.symarr import SArr

    def fn(ix):
        si, sj = ix[0] - M // 2 + m // 2, ix[1] - N // 2 + n // 2
        inside = And(lift(si) >= 0, lift(si) < m, lift(sj) >= 0, lift(sj) < n)
        return ite(inside, array.at(ite(inside, si, 0), ite(inside, sj, 0)), value)
    return SArr((M, N), fn, array.dtype)


def spec_crop_center(img, out_shape):
    m, n = img.shape
    if isinstance(out_shape, (tuple, list)):
        M, N = out_shape
    else:
        M = N = out_shape
    from pvc.symarr import SArr
    return SArr((M, N), lambda ix: img.at(ix[0] - M // 2 + m // 2, ix[1] - N // 2 + n // 2), img.dtype)


@harness('C04', 'Wavefront.pad2d/forwards', variants=[True, False],
         fuc=['prysm.propagation.Wavefront.pad2d', 'prysm.propagation.Wavefront.__init__'])
def wf_pad2d(inplace):
    """Wavefront.pad2d hands its arguments to pad2d unchanged (callee = pad2d's contract) and keeps dx,
    wavelength, space; so the origin sample stays the origin sample."""
    m, n = Int('m', 1), Int('n', 1)
    M, N = Int('M', 1), Int('N', 1)
    assume(And(M >= m, N >= n))
    a = Array('a', (m, n), 'c')
    dx, wvl = Real('dx', pos=True), Real('wvl', pos=True)
    W = get('prysm.propagation.Wavefront')
    wf = W(a, wvl, dx, 'pupil')
    with stub('prysm.propagation', 'pad2d', spec_pad2d):
        out = wf.pad2d(Q=1, out_shape=(M, N), inplace=inplace)
    check('returns-self-iff-inplace', (out is wf) == inplace)
    check('shape', shape_is(out.data, M, N))
    check('origin-sample', elem(out.data, M // 2, N // 2) == elem(a, m // 2, n // 2))
    k, l = idx(m, 'k'), idx(n, 'l')
    check('placement', elem(out.data, M // 2 - m // 2 + k, N // 2 - n // 2 + l) == elem(a, k, l))
    check('frame', And(out.dx == dx, out.wavelength == wvl, out.space == 'pupil'))
    if not inplace:
        check('source-untouched', And(shape_is(wf.data, m, n), elem(wf.data, k, l) == elem(a, k, l)))


@harness('C04', 'Wavefront.crop/forwards', variants=[True, False], fuc=['prysm.propagation.Wavefront.crop'])
def wf_crop(inplace):
    m, n = Int('m', 1), Int('n', 1)
    M, N = Int('M', 1), Int('N', 1)
    assume(And(M <= m, N <= n))
    a = Array('a', (m, n), 'c')
    dx, wvl = Real('dx', pos=True), Real('wvl', pos=True)
    W = get('prysm.propagation.Wavefront')
    wf = W(a, wvl, dx, 'psf')
    with stub('prysm.propagation', 'crop_center', spec_crop_center):
        out = wf.crop((M, N), inplace=inplace)
    check('returns-self-iff-inplace', (out is wf) == inplace)
    check('shape', shape_is(out.data, M, N))
    check('origin-sample', elem(out.data, M // 2, N // 2) == elem(a, m // 2, n // 2))
    i, j = idx(M, 'i'), idx(N, 'j')
    check('placement', elem(out.data, i, j) == elem(a, i - M // 2 + m // 2, j - N // 2 + n // 2))
    check('frame', And(out.dx == dx, out.wavelength == wvl, out.space == 'psf'))


@harness('C04', 'RichData.x|y/coords', variants=['x-first', 'y-first'],
         fuc=['prysm._richdata.RichData.__init__', 'prysm._richdata.RichData.x', 'prysm._richdata.RichData.y',
              'prysm.coordinates.make_xy_grid'])
def richdata_xy(order):
    """x[i,j] = (j - w//2) dx and y[i,j] = (i - h//2) dx whichever getter is read first."""
    h, w = Int('h', 1), Int('w', 1)
    d = Array('d', (h, w))
    dx = Real('dx', pos=True)
    R = get('prysm._richdata.RichData')
    rd = R(d, dx, Real('wvl', pos=True))
    if order == 'x-first':
        x = rd.x
        y = rd.y
    else:
        y = rd.y
        x = rd.x
    i, j = idx(h, 'i'), idx(w, 'j')
    check('shape', And(shape_is(x, h, w), shape_is(y, h, w)))
    check('x', elem(x, i, j) == (j - w // 2) * dx)
    check('y', elem(y, i, j) == (i - h // 2) * dx)
    check('zero-at-origin', And(elem(x, h // 2, w // 2) == 0, elem(y, h // 2, w // 2) == 0))


@harness('C04', 'Slices/centre', variants=[True, False],
         fuc=['prysm._richdata.RichData.slices', 'prysm._richdata.Slices.__init__', 'prysm._richdata.Slices.x',
              'prysm._richdata.Slices.y'])
def slices_centre(twosided):
    """the slices of a data set pass through the origin sample: row h//2 and column w//2."""
    h, w = Int('h', 1), Int('w', 1)
    d = Array('d', (h, w))
    dx = Real('dx', pos=True)
    R = get('prysm._richdata.RichData')
    rd = R(d, dx, Real('wvl', pos=True))
    hint(h // 2, w // 2)
    s = rd.slices(twosided=twosided)
    check('centre-index', And(s.center_y == h // 2, s.center_x == w // 2))
    ux, sx = s.x
    uy, sy = s.y
    if twosided:
        j, i = idx(w, 'j'), idx(h, 'i')
        check('x-slice', And(shape_is(sx, w), shape_is(ux, w), elem(sx, j) == elem(d, h // 2, j), elem(ux, j) == (j - w // 2) * dx))
        check('y-slice', And(shape_is(sy, h), shape_is(uy, h), elem(sy, i) == elem(d, i, w // 2), elem(uy, i) == (i - h // 2) * dx))
    else:
        j, i = idx(w - w // 2, 'j'), idx(h - h // 2, 'i')
        check('x-slice', And(shape_is(sx, w - w // 2), elem(sx, j) == elem(d, h // 2, w // 2 + j), elem(ux, j) == j * dx))
        check('y-slice', And(shape_is(sy, h - h // 2), elem(sy, i) == elem(d, h // 2 + i, w // 2), elem(uy, i) == i * dx))


@harness('C04', 'centroid/point-source', fuc=['prysm.psf.centroid'])
def centroid_point():
    """a point source k samples from the origin is reported k*dx from zero (both axes)."""
    h, w = Int('h', 1), Int('w', 1)
    p, q = idx(h, 'p'), idx(w, 'q')
    amp = Real('amp', pos=True)
    dx = Real('dx', pos=True)
    d = Delta((h, w), (p, q), amp)
    cy, cx = call('prysm.psf.centroid', d, dx=dx)
    check('y', approx(cy, (p - h // 2) * dx))
    check('x', approx(cx, (q - w // 2) * dx))
    py, px = call('prysm.psf.centroid', d, unit='pixels')
    check('pixels', And(approx(py, p), approx(px, q)))


@harness('C04', 'Interferogram.pad/forwards', variants=['samples-int', 'samples-tuple', 'shape'],
         fuc=['prysm.interferogram.Interferogram.pad'])
def ifg_pad(how):
    """Interferogram.pad reaches pad2d with the target shape the caller asked for, so the origin sample
    of the map stays the origin sample (callee = pad2d's contract)."""
    h, w = Int('h', 1), Int('w', 1)
    d = Array('d', (h, w))
    dx = Real('dx', pos=True)
    I = get('prysm.interferogram.Interferogram')
    ifg = I(d, dx=dx, wavelength=Real('wvl', pos=True))
    fill = Real('fill')
    if how == 'samples-int':
        p = Int('p', 0)
        H, W = h + p, w + p
        kw = dict(samples=p)
    elif how == 'samples-tuple':
        p, q = Int('p', 0), Int('q', 0)
        H, W = h + p, w + q
        kw = dict(samples=(p, q))
    else:
        H, W = Int('H', 1), Int('W', 1)
        assume(And(H >= h, W >= w))
        kw = dict(shape=(H, W))
    with stub('prysm.interferogram', 'pad2d', spec_pad2d):
        out = ifg.pad(fill, **kw)
    check('returns-self', out is ifg)
    check('shape', shape_is(ifg.data, H, W))
    k, l = idx(h, 'k'), idx(w, 'l')
    check('placement', elem(ifg.data, H // 2 - h // 2 + k, W // 2 - w // 2 + l) == elem(d, k, l))
    check('dx-kept', ifg.dx == dx)
    x = ifg.x
    i, j = idx(H, 'i'), idx(W, 'j')
    check('x-regenerated', And(shape_is(x, H, W), elem(x, i, j) == (j - W // 2) * dx))


@harness('C04', 'autocrop/centroid-at-window-origin', fuc=['prysm.psf.autocrop', 'prysm.psf.centroid'])
def autocrop_origin():
    """autocrop(data, px) of a point source returns the px-wide window (the documented full width) whose origin sample px//2 is
    the source: shape (px, px) and the source amplitude at (px//2, px//2), for every window that fits inside the array."""
    h, w = Int('h', 1), Int('w', 1)
    p, q = idx(h, 'p'), idx(w, 'q')
    px = Int('px', 1)
    assume(And(p - px // 2 >= 0, p - px // 2 + px <= h, q - px // 2 >= 0, q - px // 2 + px <= w))
    amp = Real('amp', pos=True)
    d = Delta((h, w), (p, q), amp)
    out = call('prysm.psf.autocrop', d, px)
    check('full-width-window', shape_is(out, px, px))
    check('source-on-the-window-origin-sample', approx(elem(out, px // 2, px // 2), amp, 1e-12))
    i, j = idx(px, 'i'), idx(px, 'j')
    check('window-is-the-data-around-the-source', approx(elem(out, i, j), elem(d, p - px // 2 + i, q - px // 2 + j), 1e-12))


@harness('C04', 'focus|unfocus/origin-sample-is-the-transform-origin', variants=['focus', 'unfocus'],
         fuc=['prysm.propagation.focus', 'prysm.propagation.unfocus'])
def fft_route_origin(which):
    """MODULAR on the library transform (fft2 / ifft2 replaced by an arbitrary array, their argument recorded; the replay uses the
    real transform): for every shape of either parity, focus and unfocus (Q = 1) hand the transform the field rolled so that its
    origin sample (m//2, n//2) sits at index (0, 0) - the phase origin of a DFT - and store DFT bin k at index k + n//2 of the
    result: a point source on the origin sample transforms to a field without tilt, and the zero-frequency / on-axis term lands on
    the origin sample of the output, in both directions."""
    from contracts.modfft import havoc_fft
    m, n = Int('m', 1), Int('n', 1)
    f = Array('f', (m, n), 'c')
    i, j = idx(m, 'i'), idx(n, 'j')
    if MODE == 'symbolic':
        with havoc_fft((m, n)) as hv:
            out = call('prysm.propagation.' + which, f, 1)
        arg = hv.fwd_arg if which == 'focus' else hv.inv_arg
        T = hv.F if which == 'focus' else hv.H
        check('one-transform-of-the-right-kind', (hv.fwd_arg is None) != (hv.inv_arg is None) and arg is not None)
    else:
        import numpy as np
        out = call('prysm.propagation.' + which, f, 1)
        arg = np.fft.ifftshift(f)
        T = (np.fft.fft2 if which == 'focus' else np.fft.ifft2)(arg, norm='ortho')
    check('shape', shape_is(out, m, n))
    check('origin-sample-rolled-to-index-0', approx(elem(arg, i, j), elem(f, (i + m // 2) % m, (j + n // 2) % n), 1e-9))
    check('bin-k-at-index-k+n//2', approx(elem(out, i, j), elem(T, (i - m // 2) % m, (j - n // 2) % n), 1e-9))
    check('on-axis-term-at-the-origin-sample', approx(elem(out, m // 2, n // 2), elem(T, 0, 0), 1e-9))


@harness('C04', 'bounded/origin-through-resampling-and-propagation', kind='bounded', variants=['polar-resampling', 'free-space-padding', 'mdft-shifted-origin'],
         fuc=['prysm.coordinates.uniform_cart_to_polar', 'prysm._richdata.Slices.azavg', 'prysm.propagation.angular_spectrum',
              'prysm.propagation.focus_fixed_sampling', 'prysm.fttools.MatrixDFTExecutor._setup_bases'])
def bounded_origin_routes(which):
    """BOUNDED (interpolation, library FFTs and float phases are outside the contract model): the origin sample n//2 through the
    routines that resample or propagate a grid.  polar-resampling: a function of radius alone, centred on the origin sample of a
    NON-square array, has the same profile along every azimuth of uniform_cart_to_polar and its azimuthal average is that profile.
    free-space-padding: angular_spectrum at zero distance with an internal padding factor returns pad2d of the field (origin sample
    to origin sample) for every parity.  mdft-shifted-origin: focus_fixed_sampling with a shift of (kx, ky) whole samples returns
    the unshifted result moved by exactly those amounts on EACH axis, square or not."""
    import numpy as np
    rng = np.random.default_rng(Int('seed', 0, 10 ** 6))
    if which == 'polar-resampling':
        co = get('prysm.coordinates')
        H, W = int(rng.integers(16, 40)), int(rng.integers(16, 40))
        dx = float(rng.uniform(0.2, 2))
        x = (np.arange(W) - W // 2) * dx
        y = (np.arange(H) - H // 2) * dx
        sig = 0.18 * min(H, W) * dx
        xx, yy = np.meshgrid(x, y)
        data = np.exp(-(xx ** 2 + yy ** 2) / (2 * sig ** 2))
        rho, phi, pol = co.uniform_cart_to_polar(x, y, data)
        inside = rho < 0.8 * min(abs(x[0]), abs(y[0]), x[-1], y[-1])          # radii sampled on every azimuth
        prof = np.exp(-rho ** 2 / (2 * sig ** 2))
        # linear interpolation of a smooth bump: error bounded by dx^2 |f''| / 8
        tol = dx ** 2 / sig ** 2 / 4 * 1.2 + 1e-9          # bilinear: (dx^2/8)(|f_xx| + |f_yy|), |f''| <= 1/sig^2
        check('same-radial-profile-on-every-azimuth', bool(np.all(abs(pol[:, inside] - prof[None, inside]) <= tol)))
        check('value-at-zero-radius-is-the-origin-sample', bool(np.allclose(pol[:, 0], data[H // 2, W // 2])))
    elif which == 'free-space-padding':
        pr, ft = get('prysm.propagation'), get('prysm.fttools')
        m, n = int(rng.integers(1, 18)), int(rng.integers(1, 18))
        f = rng.standard_normal((m, n)) + 1j * rng.standard_normal((m, n))
        wvl, dx = float(rng.uniform(0.4, 1)), float(rng.uniform(0.005, 0.05))
        for Q in (2, 3, 1.5):
            out = pr.angular_spectrum(f, wvl, dx, 0.0, Q=Q)
            want = ft.pad2d(f, Q=Q)
            check('zero-distance-returns-the-padded-field-Q=%s' % Q, out.shape == want.shape and bool(np.allclose(out, want, atol=1e-10)))
            check('crop-undoes-it-Q=%s' % Q, bool(np.allclose(ft.crop_center(out, f.shape), f, atol=1e-10)))
    else:
        pr = get('prysm.propagation')
        m, n = int(rng.integers(3, 9)), int(rng.integers(3, 9))
        square = rng.random() < 0.6
        M = int(rng.integers(8, 15))
        N = M if square else int(rng.integers(8, 15))
        if rng.random() < 0.5:
            n = m
        f = rng.standard_normal((m, n)) + 1j * rng.standard_normal((m, n))
        dx, wvl, efl = float(rng.uniform(0.1, 1)), float(rng.uniform(0.4, 1)), float(rng.uniform(50, 300))
        odx = wvl * efl / (max(m, n) * dx) / float(rng.uniform(2, 3))
        kx, ky = int(rng.integers(-3, 4)), int(rng.integers(-3, 4))
        a0 = pr.focus_fixed_sampling(f, dx, efl, wvl, odx, (M, N), shift=(0, 0), method='mdft')
        a1 = pr.focus_fixed_sampling(f, dx, efl, wvl, odx, (M, N), shift=(kx * odx, ky * odx), method='mdft')
        # either sign convention of "shift" is a pure translation by (ky, kx) samples: test both, require one, and require that
        # the axes are not exchanged or summed
        def moved(a, sy, sx):
            ys, xs = slice(max(0, sy), min(M, M + sy)), slice(max(0, sx), min(N, N + sx))
            yd, xd = slice(max(0, -sy), min(M, M - sy)), slice(max(0, -sx), min(N, N - sx))
            return bool(np.allclose(abs(a1[yd, xd]), abs(a[ys, xs]), atol=1e-9 * abs(a).max()))
        check('whole-sample-shift-is-a-translation-by-those-samples-on-each-axis', moved(a0, ky, kx) or moved(a0, -ky, -kx))


@harness('C04', 'bounded/point-sources-in-floating-point', kind='bounded', variants=['autocrop', 'centroid'],
         fuc=['prysm.psf.autocrop', 'prysm.psf.centroid'])
def bounded_point_sources(which):
    """BOUNDED (the deductive obligations above treat machine arithmetic as real arithmetic; a center of mass is a quotient of
    floating-point sums): seeded point sources of every amplitude 1e-3..1e3 at every position of arrays 1..12 per axis: the reported
    centroid is the source's sample to rounding, and autocrop's window (every width that fits) has the source on its origin sample."""
    import numpy as np
    rng = np.random.default_rng(Int('seed', 0, 10 ** 6))
    psf = get('prysm.psf')
    ok_c, ok_a = True, True
    for _ in range(40):
        h, w = int(rng.integers(1, 13)), int(rng.integers(1, 13))
        p, q = int(rng.integers(0, h)), int(rng.integers(0, w))
        amp = float(10 ** rng.uniform(-3, 3))
        d = np.zeros((h, w))
        d[p, q] = amp
        if which == 'centroid':
            dx = float(rng.uniform(0.1, 3))
            cy, cx = psf.centroid(d, dx=dx)
            ok_c &= bool(np.isclose(cy, (p - h // 2) * dx, rtol=1e-12, atol=1e-12) and np.isclose(cx, (q - w // 2) * dx, rtol=1e-12, atol=1e-12))
        else:
            fits = [px for px in range(1, 8) if p - px // 2 >= 0 and p - px // 2 + px <= h and q - px // 2 >= 0 and q - px // 2 + px <= w]
            for px in fits:
                out = psf.autocrop(d, px)
                ok_a &= out.shape == (px, px) and bool(out[px // 2, px // 2] == amp)
    if which == 'centroid':
        check('point-source-reported-k-dx-from-zero', ok_c)
    else:
        check('source-on-the-window-origin-sample', ok_a)
