"""C04 — one origin convention: sample n//2 is zero for every grid, pad, crop, metric.

Top-level postconditions are transcribed from the property statement; shapes and helper
preconditions from the call sites in /repo.  All lengths are symbolic (no bound)."""
from pvc.api import *

FT = 'prysm.fttools.'


@harness('C04', 'fftrange/def', fuc=['prysm.fttools.fftrange'])
def fftrange_def():
    """length n, element k equals k - n//2, hence an exact zero at index n//2."""
    n = Int('n', 1)
    r = call(FT + 'fftrange', n)
    check('shape', shape_is(r, n))
    k = idx(n, 'k')
    check('value', elem(r, k) == k - n // 2)
    check('zero-at-origin', elem(r, n // 2) == 0)


def _pad_args(variant, a, m, n):
    """build (kwargs, expected out shape) for the out_shape/Q calling conventions"""
    how = variant['shape']
    if how == 'tuple':
        M, N = Int('M', 1), Int('N', 1)
        assume(And(M >= m, N >= n))
        return dict(out_shape=(M, N)), (M, N)
    if how == 'int':
        M = Int('M', 1)
        assume(And(M >= m, M >= n))
        return dict(out_shape=M), (M, M)
    if how == 'Qint':
        Q = Int('Q', 1)
        return dict(Q=Q), (m * Q, n * Q)
    if how == 'Qreal':
        Q = Real('Q', 1)
        return dict(Q=Q), (ceil(m * Q), ceil(n * Q))
    raise ValueError(how)


@harness('C04', 'pad2d/placement',
         variants=[dict(shape=s, fill=f) for s in ('tuple', 'int', 'Qint', 'Qreal') for f in ('zero', 'value')],
         fuc=['prysm.fttools.pad2d'])
def pad2d_placement(v):
    """out has the requested shape; out[M//2+k, N//2+l] = in[m//2+k, n//2+l] wherever the
    right side exists, = fill value elsewhere (mode='constant')."""
    m, n = Int('m', 1), Int('n', 1)
    a = Array('a', (m, n))
    kw, (M, N) = _pad_args(v, a, m, n)
    if v['fill'] == 'value':
        val = Real('val')
        kw['value'] = val
    else:
        val = 0
    out = call(FT + 'pad2d', a, **kw)
    check('shape', shape_is(out, M, N))
    i, j = idx(M, 'i'), idx(N, 'j')
    # source index under the origin convention
    si, sj = i - M // 2 + m // 2, j - N // 2 + n // 2
    inside = And(si >= 0, si < m, sj >= 0, sj < n)
    check('origin-to-origin', Implies(inside, elem(out, i, j) == elem(a, ite(inside, si, 0), ite(inside, sj, 0))))
    check('fill-elsewhere', Implies(Not(inside), elem(out, i, j) == val))
    check('origin-sample', elem(out, M // 2, N // 2) == elem(a, m // 2, n // 2))


@harness('C04', 'pad2d/placement-npmodes', variants=['edge', 'wrap'], fuc=['prysm.fttools.pad2d'])
def pad2d_modes(v):
    """non-constant np.pad modes: the interior copy still maps origin to origin."""
    m, n = Int('m', 1), Int('n', 1)
    M, N = Int('M', 1), Int('N', 1)
    assume(And(M >= m, N >= n))
    a = Array('a', (m, n))
    out = call(FT + 'pad2d', a, out_shape=(M, N), mode=v)
    check('shape', shape_is(out, M, N))
    k, l = idx(m, 'k'), idx(n, 'l')
    check('origin-to-origin', elem(out, M // 2 - m // 2 + k, N // 2 - n // 2 + l) == elem(a, k, l))


@harness('C04', 'crop_center/placement', variants=['tuple', 'int'], fuc=['prysm.fttools.crop_center'])
def crop_placement(v):
    """out[o//2 + k] = in[i//2 + k] on both axes, shape = out_shape."""
    m, n = Int('m', 1), Int('n', 1)
    a = Array('a', (m, n))
    if v == 'tuple':
        M, N = Int('M', 1), Int('N', 1)
        assume(And(M <= m, N <= n))
        out = call(FT + 'crop_center', a, (M, N))
    else:
        M = Int('M', 1)
        N = M
        assume(And(M <= m, M <= n))
        out = call(FT + 'crop_center', a, M)
    check('shape', shape_is(out, M, N))
    i, j = idx(M, 'i'), idx(N, 'j')
    check('origin-to-origin', elem(out, i, j) == elem(a, i - M // 2 + m // 2, j - N // 2 + n // 2))
    check('origin-sample', elem(out, M // 2, N // 2) == elem(a, m // 2, n // 2))


@harness('C04', 'crop_center∘pad2d/exact-inverse', fuc=['prysm.fttools.pad2d', 'prysm.fttools.crop_center'])
def crop_undoes_pad():
    """crop_center(pad2d(a, out_shape), a.shape) == a for every parity combination."""
    m, n = Int('m', 1), Int('n', 1)
    M, N = Int('M', 1), Int('N', 1)
    assume(And(M >= m, N >= n))
    a = Array('a', (m, n))
    p = call(FT + 'pad2d', a, out_shape=(M, N))
    c = call(FT + 'crop_center', p, (m, n))
    check('shape', shape_is(c, m, n))
    k, l = idx(m, 'k'), idx(n, 'l')
    check('identity', elem(c, k, l) == elem(a, k, l))


@harness('C04', 'forward_ft_unit/zero-at-origin', variants=[True, False],
         fuc=['prysm.fttools.forward_ft_unit', 'prysm.fttools.fftfreq'])
def ft_unit(shift):
    """shifted: element k = (k - n//2)/(n dx) (zero at n//2); unshifted: zero at index 0."""
    n = Int('n', 1)
    dx = Real('dx', pos=True)
    u = call(FT + 'forward_ft_unit', dx, n, shift=shift)
    check('shape', shape_is(u, n))
    k = idx(n, 'k')
    if shift:
        check('value', elem(u, k) * (n * dx) == k - n // 2)
        check('zero-at-origin', elem(u, n // 2) == 0)
    else:
        check('value', elem(u, k) * (n * dx) == ite(k <= (n - 1) // 2, k, k - n))
        check('zero-at-origin', elem(u, 0) == 0)


@harness('C04', 'make_xy_grid/zero-at-origin',
         variants=[dict(shape=s, how=h, grid=g) for s in ('tuple', 'int') for h in ('dx', 'diameter') for g in (True, False)],
         fuc=['prysm.coordinates.make_xy_grid'])
def xy_grid(v):
    """x[i,j] = (j - w//2) dx, y[i,j] = (i - h//2) dx; with diameter: dx = diameter/max(shape)."""
    if v['shape'] == 'tuple':
        h, w = Int('h', 1), Int('w', 1)
        shp = (h, w)
    else:
        h = Int('h', 1)
        w = h
        shp = h
    if v['how'] == 'dx':
        dx = Real('dx', nonzero=True)
        x, y = call('prysm.coordinates.make_xy_grid', shp, dx=dx, grid=v['grid'])
    else:
        dia = Real('dia', nonzero=True)
        x, y = call('prysm.coordinates.make_xy_grid', shp, diameter=dia, grid=v['grid'])
        dx = dia / smax(h, w)
    i, j = idx(h, 'i'), idx(w, 'j')
    if v['grid']:
        check('shape', And(shape_is(x, h, w), shape_is(y, h, w)))
        check('x', elem(x, i, j) == (j - w // 2) * dx)
        check('y', elem(y, i, j) == (i - h // 2) * dx)
        check('zero-at-origin', And(elem(x, h // 2, w // 2) == 0, elem(y, h // 2, w // 2) == 0))
    else:
        check('shape', And(shape_is(x, w), shape_is(y, h)))
        check('x', elem(x, j) == (j - w // 2) * dx)
        check('y', elem(y, i) == (i - h // 2) * dx)
        check('zero-at-origin', And(elem(x, w // 2) == 0, elem(y, h // 2) == 0))
