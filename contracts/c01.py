"""C01 — FFT, matrix-DFT and chirp-Z propagation compute the same transform.

Convention (as the three routes share it): Q = (Qy, Qx) and samples_out = (M, N) are (rows, cols); shift = (sx, sy) is
(cols, rows) in output samples.  Textbook kernel with unitary normalisation:
  DFT2[v,u] = (m Qy n Qx)^(-1/2) sum_{y,x} f[y,x] E[-/+ 2 pi ( (y-m//2)(v-M//2-sy)/(m Qy) + (x-n//2)(u-N//2-sx)/(n Qx) )]"""
from pvc.api import *

FT = 'prysm.fttools.'


def _setup(fwd):
    m, n, M, N = Int('m', 1), Int('n', 1), Int('M', 1), Int('N', 1)
    Qy, Qx = Real('Qy', pos=True), Real('Qx', pos=True)
    return m, n, M, N, Qy, Qx


def spec_kernel(fwd, m, n, M, N, Qy, Qx, sx, sy, v, u, y, x):
    sgn = -1 if fwd else 1
    ph = sgn * 2 * pi * ((y - m // 2) * (v - M // 2 - sy) / (m * Qy) + (x - n // 2) * (u - N // 2 - sx) / (n * Qx))
    return expi(ph) * (1 / sqrt(m * Qy * n * Qx))


@harness('C01', 'mdft/kernel', variants=[dict(fwd=f, shift=s) for f in (True, False) for s in ('zero', 'nonzero')],
         fuc=['prysm.fttools.MatrixDFTExecutor._key', 'prysm.fttools.MatrixDFTExecutor._setup_bases', 'prysm.fttools.fftrange'])
def mdft_kernel(v_):
    """the factorised kernel Eout[v,y] Ein[x,u] built by _setup_bases equals the textbook unitary DFT kernel for every
    shape, per-axis Q and output size; with a non-zero shift it differs from it by a factor R with |R| = 1 that does not
    depend on the input sample (a pure phase on the output), R = 1 for zero shift."""
    fwd = v_['fwd']
    m, n, M, N, Qy, Qx = _setup(fwd)
    if v_['shift'] == 'zero':
        sx, sy = 0, 0
    else:
        sx, sy = Real('sx', nonzero=True), Real('sy', nonzero=True)
    ex = get(FT + 'MatrixDFTExecutor')()
    key = ex._key(samples_in=(m, n), Q=(Qy, Qx), samples_out=(M, N), shift=(sx, sy), fwd=fwd)
    ex._setup_bases(key)
    Eout, Ein = ex.Eout[key], ex.Ein[key]
    check('shapes', And(shape_is(Eout, M, m), shape_is(Ein, n, N)))
    v, u = idx(M, 'v'), idx(N, 'u')
    y, x = idx(m, 'y'), idx(n, 'x')
    y2, x2 = idx(m, 'y2'), idx(n, 'x2')
    k1 = elem(Eout, v, y) * elem(Ein, x, u)
    k2 = elem(Eout, v, y2) * elem(Ein, x2, u)
    s1 = spec_kernel(fwd, m, n, M, N, Qy, Qx, sx, sy, v, u, y, x)
    s2 = spec_kernel(fwd, m, n, M, N, Qy, Qx, sx, sy, v, u, y2, x2)
    R1 = k1 * s1.conjugate() * (m * Qy * n * Qx)
    R2 = k2 * s2.conjugate() * (m * Qy * n * Qx)
    check('unit-modulus', approx(abs2(R1), 1, 1e-9))
    check('input-independent', approx(R1, R2, 1e-9))
    if v_['shift'] == 'zero':
        check('exactly-textbook', approx(k1, s1, 1e-9))


@harness('C01', 'mdft/triple-product', variants=['dft2', 'idft2'],
         fuc=['prysm.fttools.MatrixDFTExecutor.dft2', 'prysm.fttools.MatrixDFTExecutor.idft2'])
def mdft_product(which):
    """dft2 / idft2 return sum_y sum_x Eout[v,y] ary[y,x] Ein[x,u] with the bases of THEIR OWN key (direction flag, argument
    order), for every shape."""
    fwd = which == 'dft2'
    m, n, M, N, Qy, Qx = _setup(fwd)
    sx, sy = Real('sx'), Real('sy')
    f = Array('f', (m, n), 'c')
    ex = get(FT + 'MatrixDFTExecutor')()
    out = getattr(ex, which)(f, (Qy, Qx), (M, N), (sx, sy))
    check('shape', shape_is(out, M, N))
    ex2 = get(FT + 'MatrixDFTExecutor')()
    key = ex2._key(samples_in=(m, n), Q=(Qy, Qx), samples_out=(M, N), shift=(sx, sy), fwd=fwd)
    ex2._setup_bases(key)
    Eout, Ein = ex2.Eout[key], ex2.Ein[key]
    v, u = idx(M, 'v'), idx(N, 'u')
    if fwd:
        want = sigma(n, lambda x: sigma(m, lambda y: elem(Eout, v, y) * elem(f, y, x)) * elem(Ein, x, u))
    else:
        want = sigma(m, lambda y: elem(Eout, v, y) * sigma(n, lambda x: elem(f, y, x) * elem(Ein, x, u)))
    check('is-triple-product', eq(elem(out, v, u), want))


def _ref_dft(np, f, Q, samples, shift, sign):
    m, n = f.shape
    Qy, Qx = Q
    M, N = samples
    sx, sy = shift
    y = np.arange(m) - m // 2
    x = np.arange(n) - n // 2
    v = np.arange(M) - M // 2 - sy
    u = np.arange(N) - N // 2 - sx
    Ey = np.exp(sign * 2j * np.pi * np.outer(v, y) / (m * Qy))
    Ex = np.exp(sign * 2j * np.pi * np.outer(x, u) / (n * Qx))
    return Ey @ f @ Ex / np.sqrt(m * Qy * n * Qx)


@harness('C01', 'bounded/three-routes-agree', kind='bounded', variants=['mdft-czt-textbook', 'fft-route', 'fixed-sampling-dispatch'],
         fuc=['prysm.fttools.ChirpZTransformExecutor.czt2', 'prysm.fttools.ChirpZTransformExecutor.iczt2', 'prysm.fttools._prepare_czt_basis',
              'prysm.propagation.focus', 'prysm.propagation.unfocus', 'prysm.propagation.focus_fixed_sampling',
              'prysm.propagation.unfocus_fixed_sampling'])
def routes_agree(which):
    """BOUNDED (not a proof; the Bluestein factorisation goes through fft2/ifft2 of zero-extended chirps): seeded shapes 1..7 per
    axis (every parity pair, non-square), per-axis Q in (0.6, 3), output sizes smaller and larger than the input, zero and real
    shifts, real and complex input, both directions: mdft = textbook DFT; czt = mdft (exactly at zero shift, in modulus with a
    shift); focus/unfocus (padded FFT) = the full-band matrix DFT; both fixed-sampling methods receive the same arguments."""
    import numpy as np
    rng = np.random.default_rng(Int('seed', 0, 10 ** 6))
    ft = get('prysm.fttools')
    pr = get('prysm.propagation')
    m, n = int(rng.integers(1, 8)), int(rng.integers(1, 8))
    M, N = int(rng.integers(1, 10)), int(rng.integers(1, 10))
    r_ = rng.random()
    if r_ < 0.25:
        # structured stress shapes: strongly non-square inputs with SQUARE outputs (and the transpose), equal in/out counts
        m, n = [(3, 10), (6, 10), (10, 3), (2, 9), (9, 2), (5, 12)][int(rng.integers(0, 6))]
        M = N = int(rng.choice([4, 8, 5]))
    elif r_ < 0.4:
        M, N = (m, n) if rng.random() < 0.5 else (n, m)
    f = rng.standard_normal((m, n))
    if rng.random() < 0.6:
        f = f + 1j * rng.standard_normal((m, n))
    f = vary_layout(rng, f)          # C / Fortran / transposed / strided memory: the transform may not depend on it
    if which == 'mdft-czt-textbook':
        Q = (float(rng.uniform(0.6, 3)), float(rng.uniform(0.6, 3))) if rng.random() < 0.6 else float(rng.uniform(0.6, 3))
        Qt = Q if isinstance(Q, tuple) else (Q, Q)
        shift = (0, 0) if rng.random() < 0.4 else (float(rng.uniform(-3, 3)), float(rng.uniform(-3, 3)))
        for sign, md, cz in ((-1, ft.mdft.dft2, ft.czt.czt2), (1, ft.mdft.idft2, ft.czt.iczt2)):
            ref = _ref_dft(np, f, Qt, (M, N), shift, sign)
            a = md(f, Q, (M, N), shift)
            b = cz(f.astype(complex) if rng.random() < 0.5 else f, Q, (M, N), shift)
            tag = 'fwd' if sign < 0 else 'inv'
            check(tag + '-mdft-modulus', bool(np.allclose(abs(a), abs(ref), atol=1e-9)))
            check(tag + '-czt-modulus', bool(np.allclose(abs(b), abs(ref), atol=1e-8)))
            if shift == (0, 0):
                check(tag + '-mdft-exact', bool(np.allclose(a, ref, atol=1e-9)))
                check(tag + '-czt-exact', bool(np.allclose(b, ref, atol=1e-8)))
            else:
                # pure phase on the output: the ratio to the textbook result must not depend on the input
                g = rng.standard_normal((m, n)) + 1j * rng.standard_normal((m, n))
                refg = _ref_dft(np, g, Qt, (M, N), shift, sign)
                ag, bg = md(g, Q, (M, N), shift), cz(g, Q, (M, N), shift)
                ok = abs(ref) > 1e-6
                ok &= abs(refg) > 1e-6
                check(tag + '-mdft-pure-phase', bool(np.allclose((a / ref)[ok], (ag / refg)[ok], atol=1e-6)))
                check(tag + '-czt-pure-phase', bool(np.allclose((b / ref)[ok], (bg / refg)[ok], atol=1e-6)))
    elif which == 'fft-route':
        Q = int(rng.integers(1, 4))
        out = pr.focus(f, Q)
        Mo, No = out.shape
        check('focus-shape', (Mo, No) == (m * Q, n * Q))
        ref = _ref_dft(np, f, (Mo / m, No / n), (Mo, No), (0, 0), -1)
        check('focus-is-dft', bool(np.allclose(out, ref, atol=1e-9)))
        out2 = pr.unfocus(f, Q)
        ref2 = _ref_dft(np, f, (Mo / m, No / n), (Mo, No), (0, 0), 1)
        check('unfocus-is-idft', bool(np.allclose(out2, ref2, atol=1e-9)))
        Qr = float(rng.uniform(1.0, 2.7))
        out3 = pr.focus(f, Qr)
        M3, N3 = out3.shape
        ref3 = _ref_dft(np, f, (M3 / m, N3 / n), (M3, N3), (0, 0), -1)
        check('focus-real-Q-is-dft-on-padded-grid', bool(np.allclose(out3, ref3, atol=1e-9)))
    else:
        dx, efl, wvl, odx = float(rng.uniform(0.1, 2)), float(rng.uniform(10, 200)), float(rng.uniform(0.4, 1.0)), float(rng.uniform(0.5, 5))
        # shifts in output units: none, both axes, one axis only
        sx_, sy_ = float(rng.uniform(-3, 3)) * odx, float(rng.uniform(-3, 3)) * odx
        shift = [(0, 0), (sx_, sy_), (sx_, 0), (0, sy_)][int(rng.integers(0, 4))]
        if rng.random() < 0.25:
            # critically sampled or very nearly so, output grid the size of the input: where a "this is just an FFT" shortcut would sit
            M, N = m, n
            odx = wvl * efl / (n * dx) / float(rng.choice([1.0, 1.0008, 0.9993, 1.02]))
            if rng.random() < 0.6:
                shift = (0, 0)
        a = pr.focus_fixed_sampling(f, dx, efl, wvl, odx, (M, N), shift=shift, method='mdft')
        b = pr.focus_fixed_sampling(f, dx, efl, wvl, odx, (M, N), shift=shift, method='czt')
        check('focus-methods-modulus', bool(np.allclose(abs(a), abs(b), atol=1e-8)))
        if shift == (0, 0):
            check('focus-methods-exact', bool(np.allclose(a, b, atol=1e-8)))
        # and both are the textbook transform at Q_axis = lambda f / (N_axis dx odx), shift in output samples
        ref = _ref_dft(np, f, (wvl * efl / (m * dx * odx), wvl * efl / (n * dx * odx)), (M, N), (shift[0] / odx, shift[1] / odx), -1)
        check('focus-is-the-textbook-transform-modulus', bool(np.allclose(abs(a), abs(ref), atol=1e-8)))
        ushift = (shift[0] / odx * dx, shift[1] / odx * dx)         # unfocus takes its shift in ITS output units (dx)
        a = pr.unfocus_fixed_sampling(f, odx, efl, wvl, dx, (M, N), shift=ushift, method='mdft')
        b = pr.unfocus_fixed_sampling(f, odx, efl, wvl, dx, (M, N), shift=ushift, method='czt')
        check('unfocus-methods-modulus', bool(np.allclose(abs(a), abs(b), atol=1e-8)))
        ref = _ref_dft(np, f, (wvl * efl / (m * dx * odx), wvl * efl / (n * dx * odx)), (M, N), (ushift[0] / dx, ushift[1] / dx), 1)
        check('unfocus-is-the-textbook-transform-modulus', bool(np.allclose(abs(a), abs(ref), atol=1e-8)))
        if M == N and rng.random() < 0.5:
            c = pr.unfocus_fixed_sampling(f, odx, efl, wvl, dx, M, shift=ushift, method='mdft')      # scalar size convention
            check('scalar-output-size-equals-tuple', bool(np.allclose(c, a, atol=1e-10)))
            c = pr.focus_fixed_sampling(f, dx, efl, wvl, odx, M, shift=shift, method='mdft')
            check('scalar-output-size-equals-tuple(focus)', bool(np.allclose(abs(c), abs(pr.focus_fixed_sampling(f, dx, efl, wvl, odx, (M, N), shift=shift, method='mdft')), atol=1e-10)))


@harness('C01', 'bounded/history-independence', kind='bounded',
         fuc=['prysm.fttools.MatrixDFTExecutor._key', 'prysm.fttools.MatrixDFTExecutor.clear', 'prysm.fttools.ChirpZTransformExecutor.clear'])
def history(seed_=None):
    """BOUNDED: after a seeded history of transforms with other arguments, precision switches and cache clear()s on the SHARED
    executors, a call returns bit-for-bit (values and dtype) what fresh executors return for the same arguments and precision."""
    import numpy as np
    rng = np.random.default_rng(Int('seed', 0, 10 ** 6))
    ft = get('prysm.fttools')
    conf = get('prysm.conf.config')
    old = 64 if conf.precision is np.float64 else 32

    def rnd_call(ex_m, ex_c):
        m, n, M, N = (int(v) for v in rng.integers(1, 6, 4))
        f = rng.standard_normal((m, n))
        Q = float(rng.choice([1.0, 1.5, 2.0]))
        sh = (0, 0) if rng.random() < 0.5 else (1.0, -0.5)
        k = int(rng.integers(0, 4))
        return [ex_m.dft2, ex_m.idft2, ex_c.czt2, ex_c.iczt2][k](f, Q, (M, N), sh)
    try:
        f = rng.standard_normal((3, 4)) + 1j * rng.standard_normal((3, 4))
        args = (f, 2.0, (5, 6), (0.5, 1.0))
        if rng.random() < 0.5:
            # a history that contains the 'twin' transform: same Q and shift, input and output shapes exchanged, other direction
            g = rng.standard_normal((5, 6)) + 1j * rng.standard_normal((5, 6))
            ft.mdft.idft2(g, 2.0, (3, 4), (0.5, 1.0))
            ft.mdft.dft2(g, 2.0, (3, 4), (0.5, 1.0))
            ft.czt.iczt2(g, 2.0, (3, 4), (0.5, 1.0))
        if rng.random() < 0.6:
            # neighbours of the target: transforms that share ONE axis's parameters (length, Q, output size, shift) with it and
            # differ on the other axis -- what a per-axis cache would confuse
            for (mm, nn, MM, NN, QQ, ss) in ((5, 4, 5, 6, 2.0, (0.5, 1.0)), (3, 7, 5, 6, 2.0, (0.5, 1.0)), (3, 4, 8, 6, 2.0, (0.5, 1.0)),
                                             (3, 4, 5, 9, 2.0, (0.5, 1.0)), (3, 4, 5, 6, (2.0, 3.0), (0.5, 1.0)), (3, 4, 5, 6, (1.5, 2.0), (0.5, 1.0)),
                                             (3, 4, 5, 6, 2.0, (0.5, 0.0)), (3, 4, 5, 6, 2.0, (0.0, 1.0))):
                if rng.random() < 0.5:
                    g = rng.standard_normal((mm, nn)) + 1j * rng.standard_normal((mm, nn))
                    for fn in (ft.mdft.dft2, ft.mdft.idft2, ft.czt.czt2, ft.czt.iczt2):
                        fn(g, QQ, (MM, NN), ss)
        for _ in range(int(rng.integers(1, 7))):
            r = rng.random()
            if r < 0.25:
                conf.precision = int(rng.choice([32, 64]))
            elif r < 0.4:
                ft.mdft.clear()
                ft.czt.clear()
            elif r < 0.6:
                ft.mdft.dft2(*args)            # same arguments at whatever precision is current
                ft.czt.czt2(*args)
            else:
                rnd_call(ft.mdft, ft.czt)
        prec = int(rng.choice([32, 64]))
        conf.precision = prec
        if rng.random() < 0.5:
            # gradient (reverse-mode) calls on the shared executor with the target's Q and shift, in both directions and with the
            # shapes either way round: they read and may populate the same cache
            g = rng.standard_normal((5, 6)) + 1j * rng.standard_normal((5, 6))
            h_ = rng.standard_normal((3, 4)) + 1j * rng.standard_normal((3, 4))
            calls = [lambda: ft.mdft.dft2_backprop(g, 2.0, (3, 4), (0.5, 1.0)), lambda: ft.mdft.idft2_backprop(g, 2.0, (3, 4), (0.5, 1.0)),
                     lambda: ft.mdft.dft2_backprop(h_, 2.0, (5, 6), (0.5, 1.0)), lambda: ft.mdft.idft2_backprop(h_, 2.0, (5, 6), (0.5, 1.0))]
            for k in rng.permutation(4):          # any subset, in any order (one call may populate what another would reuse)
                if rng.random() < 0.5:
                    calls[int(k)]()
        for name in ('dft2', 'idft2'):
            got = getattr(ft.mdft, name)(*args)
            fresh = getattr(ft.MatrixDFTExecutor(), name)(*args)
            check('mdft-%s-value' % name, bool(np.array_equal(got, fresh)))
            ref = _ref_dft(np, args[0], (args[1], args[1]), args[2], args[3], -1 if name == 'dft2' else 1)
            check('mdft-%s-modulus-is-the-textbook-transform-after-the-history' % name, bool(np.allclose(abs(got), abs(ref), atol=1e-4 if prec == 32 else 1e-9)))
            check('mdft-%s-dtype' % name, got.dtype == fresh.dtype)
        for name in ('czt2', 'iczt2'):
            got = getattr(ft.czt, name)(*args)
            fresh = getattr(ft.ChirpZTransformExecutor(), name)(*args)
            check('czt-%s-value' % name, bool(np.array_equal(got, fresh)))
            check('czt-%s-dtype' % name, got.dtype == fresh.dtype)
    finally:
        conf.precision = old
        ft.mdft.clear()
        ft.czt.clear()

