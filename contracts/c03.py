"""C03 — output sampling and coordinates are physically correct."""
from pvc.api import *

PR = 'prysm.propagation.'


@harness('C03', 'sample-conversions/inverse', fuc=['prysm.propagation.pupil_sample_to_psf_sample', 'prysm.propagation.psf_sample_to_pupil_sample',
                                                  'prysm.propagation.Q_for_sampling'])
def conversions():
    """pupil<->psf spacing conversions are exact inverses of each other (both ways), equal lambda f / (dx N); Q_for_sampling is
    (lambda f / D) / dx_out, so that N_in Q samples of dx_out span lambda f / dx_in."""
    dx, wvl, efl = Real('dx', pos=True), Real('wvl', pos=True), Real('efl', pos=True)
    N = Int('N', 1)
    p2f, f2p = get(PR + 'pupil_sample_to_psf_sample'), get(PR + 'psf_sample_to_pupil_sample')
    a = p2f(dx, N, wvl, efl)
    check('formula', approx(a * dx * N, efl * wvl))
    check('psf-to-pupil-undoes', approx(f2p(a, N, wvl, efl), dx))
    check('pupil-to-psf-undoes', approx(p2f(f2p(dx, N, wvl, efl), N, wvl, efl), dx))
    odx = Real('odx', pos=True)
    Q = get(PR + 'Q_for_sampling')(N * dx, efl, wvl, odx)
    check('Q-definition', approx(Q * N * dx * odx, wvl * efl))


@harness('C03', 'Wavefront.focus/reported-dx', variants=['focus', 'unfocus'],
         fuc=['prysm.propagation.Wavefront.focus', 'prysm.propagation.Wavefront.unfocus'])
def reported_dx(which):
    """the spacing reported after an FFT propagation is lambda f / (N dx_in) with N the number of samples of the PADDED array along
    axis 1 (the one axis a single dx can describe; see the known finding for non-square arrays), space flips, wavelength kept."""
    m, n = Int('m', 1), Int('n', 1)
    f = Array('f', (m, n), 'c')
    dx, wvl, efl = Real('dx', pos=True), Real('wvl', pos=True), Real('efl', pos=True)
    Q = Int('Q', 1, 3)
    W = get(PR + 'Wavefront')
    wf = W(f, wvl, dx, 'pupil' if which == 'focus' else 'psf')
    out = wf.focus(efl, Q=Q) if which == 'focus' else wf.unfocus(efl, Q=Q)
    check('shape', shape_is(out.data, m * Q, n * Q))
    check('dx', approx(out.dx * (n * Q) * dx, wvl * efl))
    # fractional Q: the padded array has ceil(n Q) samples, and THAT count sets the spacing
    Qr = Real('Qr', 1, 3)
    out2 = wf.focus(efl, Q=Qr) if which == 'focus' else wf.unfocus(efl, Q=Qr)
    check('shape-real-Q', shape_is(out2.data, ceil(m * Qr), ceil(n * Qr)))
    check('dx-real-Q', approx(out2.dx * ceil(n * Qr) * dx, wvl * efl))
    check('space', out.space == ('psf' if which == 'focus' else 'pupil'))
    check('wavelength', out.wavelength == wvl)
    check('wrong-space-raises', did_raise(lambda: (wf.unfocus(efl, Q=Q) if which == 'focus' else wf.focus(efl, Q=Q)), ValueError))


@harness('C03', 'bounded/tilt-lands-where-physics-says', kind='bounded', variants=['fft-route', 'fixed-sampling', 'shift-translates', 'unfocus-tilt', 'unfocus-fft-route'],
         fuc=['prysm.propagation.Wavefront.focus', 'prysm.propagation.focus_fixed_sampling', 'prysm.propagation.unfocus_fixed_sampling',
              'prysm.propagation.Wavefront.focus_fixed_sampling', 'prysm.propagation.Wavefront.unfocus_fixed_sampling'])
def tilt_lands(which):
    """BOUNDED: a uniform pupil of ANY shape (square and not, odd/even) carrying k waves of tilt across its width on each axis
    focuses to a spot displaced by k lambda f / D on that axis -- located through the FFT route and its reported dx, and through
    both fixed-sampling methods at a requested dx; a requested output shift translates the image by that many output units; a
    displaced focal spot unfocuses to the corresponding pupil tilt."""
    import numpy as np
    rng = np.random.default_rng(Int('seed', 0, 10 ** 6))
    pr = get('prysm.propagation')
    m, n = int(rng.integers(4, 10)), int(rng.integers(4, 10))
    if rng.random() < 0.3:
        n = m
    dx, wvl, efl = float(rng.uniform(0.1, 1.0)), float(rng.uniform(0.4, 1.0)), float(rng.uniform(50, 300))
    ky, kx = int(rng.integers(-1, 2)), int(rng.integers(-1, 2))
    Y, X = np.meshgrid((np.arange(m) - m // 2) * dx, (np.arange(n) - n // 2) * dx, indexing='ij')
    Dy, Dx = m * dx, n * dx
    pupil = vary_layout(rng, np.exp(2j * np.pi * (ky * Y / Dy + kx * X / Dx)))      # any memory layout
    want_y, want_x = ky * wvl * efl / Dy, kx * wvl * efl / Dx      # microns when dx in mm, wvl in um, efl in mm

    def locate(data, odx_y, odx_x):
        I = abs(data) ** 2
        iy, ix = np.unravel_index(np.argmax(I), I.shape)
        return (iy - I.shape[0] // 2) * odx_y, (ix - I.shape[1] // 2) * odx_x
    if which == 'fft-route':
        Q = int(rng.integers(1, 4)) if rng.random() < 0.5 else float(rng.choice([1.5, 2.2, 2.5, 1.25]))
        out = pr.Wavefront(pupil, wvl, dx, 'pupil').focus(efl, Q=Q)
        py, px = locate(out.data, out.dx, out.dx)
        # integer Q: the spot sits exactly on a sample; fractional Q: within half a sample of the physical position
        atol = (1e-6 if isinstance(Q, int) else 0.5001) * abs(out.dx) + 1e-9
        check('x-axis', bool(np.isclose(px, want_x, atol=atol)))
        if m == n:
            check('y-axis(square)', bool(np.isclose(py, want_y, atol=atol)))
        else:
            check('y-axis(non-square)', bool(np.isclose(py, want_y, atol=1e-6 * abs(out.dx) + 1e-9)))
    elif which == 'fixed-sampling':
        q = int(np.ceil(2 * m / n)) + int(rng.integers(0, 2))      # at least two samples per resolution element on BOTH axes
        # choose the output spacing so that one wave of tilt is q samples on the x axis
        odx = wvl * efl / (Dx * q)
        S = (n * q - 1, n * q - 1)          # stay inside one period (n q samples on both axes) of the sampled transform
        for method in ('mdft', 'czt'):
            out = pr.focus_fixed_sampling(pupil, dx, efl, wvl, odx, S, method=method)
            py, px = locate(out, odx, odx)
            check('x-axis-' + method, bool(np.isclose(px, want_x, atol=0.51 * odx)))
            check('y-axis-' + method, bool(np.isclose(py, want_y, atol=0.51 * odx)))
    elif which == 'shift-translates':
        qq = max(2, int(np.ceil(2 * m / n)))
        odx = wvl * efl / (Dx * qq)
        S = (qq * n - 1, qq * n - 1)          # inside one period (qq n samples on both axes), >= 2 samples per resolution element
        lim = max(1, (qq * n - 1) // 2 - qq - 2)      # keep the displaced spot inside the window
        sx, sy = int(rng.integers(-lim, lim + 1)) * odx, int(rng.integers(-lim, lim + 1)) * odx
        pupil = np.ones((m, n), dtype=complex)      # untilted: the spot sits exactly on the origin sample (no half-sample ties)
        for method in ('mdft', 'czt'):
            a = pr.focus_fixed_sampling(pupil, dx, efl, wvl, odx, S, shift=(0, 0), method=method)
            b = pr.focus_fixed_sampling(pupil, dx, efl, wvl, odx, S, shift=(sx, sy), method=method)
            ay, ax = locate(a, odx, odx)
            by, bx = locate(b, odx, odx)
            # the window moves by +shift, so the spot appears displaced by -shift inside it (same sign/axis for both methods)
            check('translate-x-' + method, bool(np.isclose(abs(bx - ax), abs(sx), atol=1e-9)))
            check('translate-y-' + method, bool(np.isclose(abs(by - ay), abs(sy), atol=1e-9)))
        a = pr.focus_fixed_sampling(pupil, dx, efl, wvl, odx, S, shift=(sx, sy), method='mdft')
        b = pr.focus_fixed_sampling(pupil, dx, efl, wvl, odx, S, shift=(sx, sy), method='czt')
        check('methods-agree-on-direction', locate(a, odx, odx) == locate(b, odx, odx))
        # a shift by a fraction of a sample: both methods sample the same displaced image (in modulus)
        fsx, fsy = float(rng.uniform(-2.5, 2.5)) * odx, float(rng.uniform(-2.5, 2.5)) * odx
        a = pr.focus_fixed_sampling(pupil, dx, efl, wvl, odx, S, shift=(fsx, fsy), method='mdft')
        b = pr.focus_fixed_sampling(pupil, dx, efl, wvl, odx, S, shift=(fsx, fsy), method='czt')
        check('fractional-shift-methods-agree', bool(np.allclose(abs(a), abs(b), atol=1e-8 * abs(a).max())))
        # the inverse direction: a shift of the pupil-plane window (in pupil units) moves the pupil image the same way for both methods
        F0 = pr.focus_fixed_sampling(np.pad(np.ones((max(1, m // 2), max(1, n // 2)), dtype=complex), ((1, m - max(1, m // 2) - 1 if m - max(1, m // 2) - 1 > 0 else 0), (1, n - max(1, n // 2) - 1 if n - max(1, n // 2) - 1 > 0 else 0))),
                                     dx, efl, wvl, odx, S, method='mdft')
        ush = (float(rng.integers(-2, 3)) * dx, float(rng.integers(-2, 3)) * dx)
        pm = pr.unfocus_fixed_sampling(F0, odx, efl, wvl, dx, (m + 4, n + 4), shift=ush, method='mdft')
        pc = pr.unfocus_fixed_sampling(F0, odx, efl, wvl, dx, (m + 4, n + 4), shift=ush, method='czt')
        p0 = pr.unfocus_fixed_sampling(F0, odx, efl, wvl, dx, (m + 4, n + 4), shift=(0, 0), method='mdft')
        check('unfocus-shift-methods-agree', bool(np.allclose(abs(pm), abs(pc), atol=1e-8 * abs(p0).max())))
    elif which == 'unfocus-fft-route':
        # FFT route, focal plane of ANY parity: a real spot displaced by (py, px) samples from the origin sample unfocuses to
        # exactly py and px waves of tilt across the pupil array, with zero phase at the pupil origin sample, and focusing that
        # pupil puts the spot back where it was
        M, N = int(rng.integers(3, 12)), int(rng.integers(3, 12))
        py, px = int(rng.integers(-(M // 2), (M - 1) // 2 + 1)), int(rng.integers(-(N // 2), (N - 1) // 2 + 1))
        spot = np.zeros((M, N))
        spot[M // 2 + py, N // 2 + px] = 1.0
        wf = pr.Wavefront(spot, wvl, dx, 'psf')
        pup = wf.unfocus(efl, Q=1)
        ii, jj = np.meshgrid(np.arange(M) - M // 2, np.arange(N) - N // 2, indexing='ij')
        want = np.exp(2j * np.pi * (py * ii / M + px * jj / N)) / np.sqrt(M * N)
        check('pupil-is-the-tilt-of-the-displaced-spot', bool(np.allclose(pup.data, want, atol=1e-9)))
        back = pup.focus(efl, Q=1)
        I = abs(back.data) ** 2
        check('spot-returns-to-its-sample', np.unravel_index(np.argmax(I), I.shape) == (M // 2 + py, N // 2 + px) and bool(np.isclose(I.max(), 1.0)))
        # and the free function agrees with the method
        check('function-equals-method', bool(np.allclose(pr.unfocus(spot, 1), pup.data, atol=1e-12)))
        # a relay: focus with one focal length, unfocus with another (and the psf-plane spacing edited in between): the reported
        # pupil spacing is lambda f2 / (N dx_psf) of THIS call, whatever produced the psf-plane object
        f1, f2 = float(rng.uniform(50, 300)), float(rng.uniform(50, 300))
        P0 = pr.Wavefront(np.ones((M, N), dtype=complex), wvl, dx, 'pupil')
        Fp = P0.focus(f1, Q=1)
        back2 = Fp.unfocus(f2, Q=1)
        check('relay-reports-the-spacing-of-the-second-lens', bool(np.isclose(back2.dx, wvl * f2 / (N * Fp.dx), rtol=1e-12)))
        Fp.dx = Fp.dx * 1.7
        back3 = Fp.unfocus(f2, Q=1)
        check('edited-psf-spacing-is-used', bool(np.isclose(back3.dx, wvl * f2 / (N * Fp.dx), rtol=1e-12)))
    else:
        # a displaced focal spot unfocuses to the corresponding pupil tilt
        qq = max(2, int(np.ceil(2 * m / n)))
        odx = wvl * efl / (Dx * qq)
        S = (qq * n - 1, qq * n - 1)
        F = pr.focus_fixed_sampling(pupil, dx, efl, wvl, odx, S, method='mdft')
        back = pr.unfocus_fixed_sampling(F, odx, efl, wvl, dx, (m, n), method='mdft')
        ph = np.angle(back * np.conj(pupil))
        good = abs(back) > 0.3 * abs(back).max()
        check('tilt-recovered', bool(np.allclose(ph[good] - ph[good].mean(), 0, atol=0.35)))
        # a REAL-valued displaced spot: both methods must give the same pupil field (same sign of tilt)
        spot = np.zeros(S)
        spot[S[0] // 2 + int(rng.integers(-2, 3)), S[1] // 2 + int(rng.integers(-2, 3))] = 1.0
        a = pr.unfocus_fixed_sampling(spot, odx, efl, wvl, dx, (m, n), method='mdft')
        b = pr.unfocus_fixed_sampling(spot, odx, efl, wvl, dx, (m, n), method='czt')
        check('real-spot-methods-agree', bool(np.allclose(a, b, atol=1e-8)))
