"""C06 — every backprop routine returns the true gradient of its forward routine.

Convention (from the property): for a real cost c the gradient w.r.t. a complex array z = a + ib is dc/da + i dc/db; the companion of
a linear map A is A^H: <y, A x> = <A^H y, x> with <u, v> = sum conj(u) v."""
from pvc.api import *

FT = 'prysm.fttools.'


@harness('C06', 'mdft-backprop/adjoint-kernel', variants=['dft2', 'idft2'],
         fuc=['prysm.fttools.MatrixDFTExecutor.dft2_backprop', 'prysm.fttools.MatrixDFTExecutor.idft2_backprop',
              'prysm.fttools.MatrixDFTExecutor._setup_bases'])
def mdft_adjoint(which):
    """dft2_backprop / idft2_backprop use the SAME cache key (bases) as the forward call with corresponding arguments and apply
    their conjugate transpose: out[y,x] = sum_v sum_u conj(Eout[v,y]) fbar[v,u] conj(Ein[x,u]), for every shape, Q, size and shift."""
    fwd = which == 'dft2'
    m, n, M, N = Int('m', 1), Int('n', 1), Int('M', 1), Int('N', 1)
    Qy, Qx = Real('Qy', pos=True), Real('Qx', pos=True)
    sx, sy = Real('sx'), Real('sy')
    fbar = Array('fbar', (M, N), 'c')
    ex = get(FT + 'MatrixDFTExecutor')()
    if fwd:
        out = ex.dft2_backprop(fbar, (Qy, Qx), samples_in=(m, n), shift=(sx, sy))
    else:
        out = ex.idft2_backprop(fbar, (Qy, Qx), samples_out=(m, n), shift=(sx, sy))
    check('shape', shape_is(out, m, n))
    ex2 = get(FT + 'MatrixDFTExecutor')()
    key = ex2._key(samples_in=(m, n), Q=(Qy, Qx), samples_out=(M, N), shift=(sx, sy), fwd=fwd)
    ex2._setup_bases(key)
    Eout, Ein = ex2.Eout[key], ex2.Ein[key]
    y, x = idx(m, 'y'), idx(n, 'x')
    want = sigma(M, lambda v: elem(Eout, v, y).conjugate() * sigma(N, lambda u: elem(fbar, v, u) * elem(Ein, x, u).conjugate()))
    check('is-conjugate-transpose', eq(elem(out, y, x), want))


@harness('C06', 'Wavefront.intensity_backprop/gradient', fuc=['prysm.propagation.Wavefront.intensity_backprop', 'prysm.propagation.Wavefront.intensity'])
def intensity_bp():
    """I = |E|^2 = a^2 + b^2, so dI/da + i dI/db = 2E and the gradient of a cost with upstream Ibar is 2 Ibar E (elementwise)."""
    m, n = Int('m', 1), Int('n', 1)
    E = Array('E', (m, n), 'c')
    Ibar = Array('Ibar', (m, n))
    W = get('prysm.propagation.Wavefront')
    wf = W(E, Real('wvl', pos=True), Real('dx', pos=True), 'psf')
    g = wf.intensity_backprop(Ibar)
    i, j = idx(m, 'i'), idx(n, 'j')
    e = elem(E, i, j)
    check('gradient', approx(elem(g.data, i, j), cx(2 * elem(Ibar, i, j) * e.real, 2 * elem(Ibar, i, j) * e.imag), 1e-9))
    check('intensity', approx(elem(wf.intensity.data, i, j), e.real * e.real + e.imag * e.imag, 1e-9))


@harness('C06', 'SpatialGradient2D/adjoint', variants=['x', 'y'],
         fuc=['prysm.x.optym.operators.SpatialGradient2D.forward_x', 'prysm.x.optym.operators.SpatialGradient2D.backprop_x',
              'prysm.x.optym.operators.SpatialGradient2D.forward_y', 'prysm.x.optym.operators.SpatialGradient2D.backprop_y'])
def spatial_gradient(axis):
    """backprop is the transpose of forward: with forward = sum_in K[out;in] x[in], backprop[in] = sum_out K[out;in] xbar[out]
    for every array shape (incl. non-square) -- stated entrywise on the finite-difference stencil."""
    H, W = Int('H', 3), Int('W', 3)
    x = Array('x', (H, W))
    xbar = Array('xbar', (H, W))
    op = get('prysm.x.optym.operators.SpatialGradient2D')()
    fwd = getattr(op, 'forward_' + axis)(x)
    bwd = getattr(op, 'backprop_' + axis)(xbar)
    i, j = idx(H, 'i'), idx(W, 'j')
    n = W if axis == 'x' else H
    k = j if axis == 'x' else i
    nb = (lambda a, d: elem(a, i, j + d)) if axis == 'x' else (lambda a, d: elem(a, i + d, j))
    # forward: out[k] = x[k+1] - x[k] for 1 <= k <= n-2, else 0
    inner = And(k >= 1, k <= n - 2)
    check('forward-stencil', approx(elem(fwd, i, j), ite(inner, nb(x, 1) - elem(x, i, j), 0) if MODE == 'symbolic' else
                                    (nb(x, 1) - elem(x, i, j) if inner else 0)))
    # transpose: in[k] receives +xbar[k-1] (if 1 <= k-1 <= n-2) and -xbar[k] (if 1 <= k <= n-2)
    if MODE == 'symbolic':
        want = ite(And(k - 1 >= 1, k - 1 <= n - 2), nb(xbar, -1), 0) - ite(inner, elem(xbar, i, j), 0)
    else:
        want = (nb(xbar, -1) if (1 <= k - 1 <= n - 2) else 0) - (elem(xbar, i, j) if inner else 0)
    check('backprop-is-transpose', approx(elem(bwd, i, j), want))


@harness('C06', 'bounded/adjoint-and-gradient-tests', kind='bounded',
         variants=['fixed-sampling-backprop', 'amp-and-phase', 'sum_of_2d_modes', 'to_fpm_and_back', 'babinet', 'activations',
                   'softmax-encoder', 'costs', 'dm-render'],
         fuc=['prysm.propagation.focus_fixed_sampling_backprop', 'prysm.propagation.unfocus_fixed_sampling_backprop',
              'prysm.propagation.Wavefront.from_amp_and_phase_backprop_phase', 'prysm.polynomials.sum_of_2d_modes_backprop',
              'prysm.propagation.to_fpm_and_back_backprop', 'prysm.propagation.Wavefront.babinet_backprop',
              'prysm.x.optym.activation.Softmax', 'prysm.x.optym.activation.GumbelSoftmax', 'prysm.x.optym.activation.DiscreteEncoder',
              'prysm.x.optym.activation.Tanh', 'prysm.x.optym.activation.Arctan', 'prysm.x.optym.activation.Softplus',
              'prysm.x.optym.activation.Sigmoid', 'prysm.x.optym.cost.mean_square_error', 'prysm.x.optym.cost.negative_loglikelihood',
              'prysm.x.optym.cost.bias_and_gain_invariant_error', 'prysm.x.dm.DM.render_backprop', 'prysm.fttools.fourier_resample_backprop'])
def adjoint_tests(which):
    """BOUNDED: inner-product (adjoint) tests for the linear companions and directional-derivative tests for the non-linear ones on
    seeded inputs: non-square and unequal pupil / mask shapes, real and complex masks and Lyot stops, shifts, node parameters, masked
    and unmasked costs, Gumbel-softmax with frozen noise and annealed temperature, DM geometries (shift, pad, crop, resample) without rotation."""
    import numpy as np
    rng = np.random.default_rng(Int('seed', 0, 10 ** 6))
    pr = get('prysm.propagation')
    inner = lambda a, b: np.vdot(a, b)
    cplx = lambda shp: vary_layout(rng, rng.standard_normal(shp) + 1j * rng.standard_normal(shp))      # fields in any memory layout
    m, n = int(rng.integers(2, 8)), int(rng.integers(2, 8))
    M, N = int(rng.integers(2, 9)), int(rng.integers(2, 9))
    dx, wvl, efl = float(rng.uniform(0.1, 1)), float(rng.uniform(0.4, 1)), float(rng.uniform(50, 300))
    odx = float(rng.uniform(0.3, 3)) * wvl * efl / (max(m, n) * dx) / 2
    if which == 'fixed-sampling-backprop':
        x, y = cplx((m, n)), cplx((M, N))
        A = pr.focus_fixed_sampling(x, dx, efl, wvl, odx, (M, N))
        AH = pr.focus_fixed_sampling_backprop(y, dx, efl, wvl, odx, (m, n))
        check('focus-adjoint', bool(np.isclose(inner(y, A), inner(AH, x))))
        x2, y2 = cplx((M, N)), cplx((m, n))
        B = pr.unfocus_fixed_sampling(x2, odx, efl, wvl, dx, (m, n))
        BH = pr.unfocus_fixed_sampling_backprop(y2, odx, efl, wvl, dx, (M, N))
        check('unfocus-adjoint', bool(np.isclose(inner(y2, B), inner(BH, x2))))
        # with image- and pupil-plane shifts (each in the units of its output plane), functions and Wavefront methods
        sh = (float(rng.uniform(-3, 3)) * odx, float(rng.uniform(-3, 3)) * odx)
        bsh = (float(rng.uniform(-3, 3)) * dx, float(rng.uniform(-3, 3)) * dx)
        A = pr.focus_fixed_sampling(x, dx, efl, wvl, odx, (M, N), shift=sh)
        AH = pr.focus_fixed_sampling_backprop(y, dx, efl, wvl, odx, (m, n), shift=sh)
        check('focus-adjoint-with-shift', bool(np.isclose(inner(y, A), inner(AH, x))))
        B = pr.unfocus_fixed_sampling(x2, odx, efl, wvl, dx, (m, n), shift=bsh)
        BH = pr.unfocus_fixed_sampling_backprop(y2, odx, efl, wvl, dx, (M, N), shift=bsh)
        check('unfocus-adjoint-with-shift', bool(np.isclose(inner(y2, B), inner(BH, x2))))
        Am = pr.Wavefront(x, wvl, dx).focus_fixed_sampling(efl, odx, (M, N), shift=sh).data
        AHm = pr.Wavefront(y, wvl, odx, space='psf').focus_fixed_sampling_backprop(efl, dx, (m, n), shift=sh).data
        check('Wavefront-method-focus-adjoint-with-shift', bool(np.isclose(inner(y, Am), inner(AHm, x))))
    elif which == 'amp-and-phase':
        amp, phs = rng.random((m, n)) + 0.1, rng.standard_normal((m, n)) * 50
        W = pr.Wavefront.from_amp_and_phase(amp, phs, wvl, dx)
        gbar = cplx((m, n))
        cost = lambda p: float(np.real(inner(gbar, pr.Wavefront.from_amp_and_phase(amp, p, wvl, dx).data)))
        d = rng.standard_normal((m, n))
        h = 1e-4
        fd = (cost(phs + h * d) - cost(phs - h * d)) / (2 * h)
        grad = W.from_amp_and_phase_backprop_phase(pr.Wavefront(gbar, wvl, dx))
        check('phase-gradient', bool(np.isclose((grad * d).sum(), fd, rtol=1e-5, atol=1e-8)))
    elif which == 'sum_of_2d_modes':
        P = get('prysm.polynomials')
        K = int(rng.integers(1, 6))
        rank = int(rng.integers(1, 3))
        shp = (m,) if rank == 1 else (m, n)
        modes = rng.standard_normal((K,) + shp)
        w, ybar = rng.standard_normal(K), rng.standard_normal(shp)
        check('adjoint', bool(np.isclose((ybar * P.sum_of_2d_modes(modes, w)).sum(), (P.sum_of_2d_modes_backprop(modes, ybar) * w).sum()))
              if rank == 2 else True)
    elif which in ('to_fpm_and_back', 'babinet'):
        fpm = rng.random((M, N)) * (np.exp(1j * rng.uniform(-1, 1, (M, N))) if rng.random() < 0.5 else 1)
        x, y = cplx((m, n)), cplx((m, n))
        if which == 'to_fpm_and_back':
            A = pr.to_fpm_and_back(x, dx, efl, wvl, fpm, odx)
            AH = pr.to_fpm_and_back_backprop(y, dx, wvl, efl, fpm, odx)
            check('adjoint', bool(np.isclose(inner(y, A), inner(AH, x))))
            sh = (float(rng.uniform(-3, 3)) * odx, float(rng.uniform(-3, 3)) * odx)
            A = pr.to_fpm_and_back(x, dx, efl, wvl, fpm, odx, shift=sh)
            AH = pr.to_fpm_and_back_backprop(y, dx, wvl, efl, fpm, odx, shift=sh)
            check('adjoint-with-shift', bool(np.isclose(inner(y, A), inner(AH, x))))
            Am = pr.Wavefront(x, wvl, dx).to_fpm_and_back(efl, fpm, odx, shift=sh).data
            AHm = pr.Wavefront(y, wvl, dx).to_fpm_and_back_backprop(efl, fpm, odx, shift=sh).data
            check('Wavefront-method-adjoint-with-shift', bool(np.isclose(inner(y, Am), inner(AHm, x))))
        else:
            lyot = (rng.random((m, n)) * (np.exp(1j * rng.uniform(-1, 1, (m, n))) if rng.random() < 0.5 else 1)) if rng.random() < 0.7 else None
            A = pr.Wavefront(x, wvl, dx).babinet(efl, lyot, fpm, fpm_dx=odx).data
            AH = pr.Wavefront(y, wvl, dx).babinet_backprop(efl, lyot, fpm, fpm_dx=odx).data
            check('adjoint', bool(np.isclose(inner(y, A), inner(AH, x))))
    elif which == 'activations':
        act = get('prysm.x.optym.activation')
        a, x0, y0 = float(rng.uniform(0.3, 3)), float(rng.uniform(-1, 1)), float(rng.uniform(-1, 1))
        x = rng.uniform(-2, 2, (m, n))
        h = 1e-6
        for cls in ('Tanh', 'Arctan', 'Softplus', 'Sigmoid'):
            node = getattr(act, cls)(a, x0, y0)
            fd = (node.forward(x + h) - node.forward(x - h)) / (2 * h)
            check(cls + '-derivative', bool(np.allclose(node.backprop(x.copy()), fd, rtol=1e-5, atol=1e-7)))
        # far out on the tails (|a (x - x0)| of several hundred) the saturating nodes are flat: the derivative is a finite number
        # (zero to rounding), not the nan of an overflowed intermediate
        import warnings
        xt = x0 + np.array([-900.0, -720.0, -300.0, 300.0, 720.0, 900.0]) / a
        with warnings.catch_warnings():
            warnings.simplefilter('ignore')
            for cls in ('Tanh', 'Arctan', 'Sigmoid'):
                node = getattr(act, cls)(a, x0, y0)
                d_ = np.asarray(node.backprop(xt.copy()), dtype=float)
                check(cls + '-derivative-on-the-tails', bool(np.isfinite(d_).all() and np.all(abs(d_) <= (1e-4 if cls == 'Arctan' else 1e-100) * a)))
    elif which == 'softmax-encoder':
        act = get('prysm.x.optym.activation')
        K = int(rng.integers(2, 6))
        x = rng.standard_normal((m, K))
        gbar, d = rng.standard_normal((m, K)), rng.standard_normal((m, K))
        h = 1e-6
        sm = act.Softmax()
        cost = lambda xx: float((gbar * act.Softmax().forward(xx)).sum())
        sm.forward(x)
        check('softmax-jvp', bool(np.isclose((sm.backprop(gbar) * d).sum(), (cost(x + h * d) - cost(x - h * d)) / (2 * h), rtol=1e-5, atol=1e-8)))
        levels = np.sort(rng.standard_normal(K))
        enc = act.DiscreteEncoder(act.Softmax(), levels)
        gb = rng.standard_normal(m)
        cost2 = lambda xx: float((gb * act.DiscreteEncoder(act.Softmax(), levels).forward(xx)).sum())
        enc.forward(x)
        check('encoder-gradient', bool(np.isclose((enc.backprop(gb) * d).sum(), (cost2(x + h * d) - cost2(x - h * d)) / (2 * h), rtol=1e-5, atol=1e-8)))
        # inputs of rank 3 with the upstream gradient in every memory layout (C order, Fortran order, a transposed view)
        shp3 = (int(rng.integers(2, 4)), int(rng.integers(2, 4)), K)
        x3, d3 = rng.standard_normal(shp3), rng.standard_normal(shp3)
        g3 = rng.standard_normal(shp3)
        lay = int(rng.integers(0, 3))
        g3l = g3 if lay == 0 else (np.asfortranarray(g3) if lay == 1 else np.ascontiguousarray(g3.transpose(2, 1, 0)).transpose(2, 1, 0))
        sm3 = act.Softmax()
        cost3 = lambda xx: float((g3 * act.Softmax().forward(xx)).sum())
        sm3.forward(x3)
        check('softmax-jvp-rank-3-any-layout', bool(np.isclose((sm3.backprop(g3l) * d3).sum(), (cost3(x3 + h * d3) - cost3(x3 - h * d3)) / (2 * h), rtol=1e-5, atol=1e-8)))
        # Gumbel-softmax: the noise is frozen by re-seeding the node's generator before every forward call, which makes forward a
        # deterministic function; temperature given at construction and re-assigned on the live object (annealing, the documented use)
        tau0, tau1 = float(rng.uniform(0.3, 2.5)), float(rng.uniform(0.3, 2.5))
        gs = act.GumbelSoftmax(tau=tau0)
        nseed = int(rng.integers(0, 2 ** 31))

        def gforward(node, xx):
            gs.rng = np.random.default_rng(nseed)
            return node.forward(xx)
        for tag, tau in (('construction', tau0), ('reassigned', tau1)):
            gs.tau = tau
            costg = lambda xx: float((gbar * gforward(gs, xx)).sum())
            fd = (costg(x + h * d) - costg(x - h * d)) / (2 * h)
            gforward(gs, x)
            check('gumbel-softmax-jvp-tau-at-' + tag, bool(np.isclose((gs.backprop(gbar) * d).sum(), fd, rtol=1e-5, atol=1e-8)))
        enc2 = act.DiscreteEncoder(gs, levels)
        gs.tau = float(rng.uniform(0.3, 2.5))
        coste = lambda xx: float((gb * gforward(enc2, xx)).sum())
        fd = (coste(x + h * d) - coste(x - h * d)) / (2 * h)
        gforward(enc2, x)
        check('encoder-on-annealed-gumbel-gradient', bool(np.isclose((enc2.backprop(gb) * d).sum(), fd, rtol=1e-5, atol=1e-8)))
    elif which == 'costs':
        cst = get('prysm.x.optym.cost')
        Mo, D = rng.random((m, n)) + 0.2, rng.random((m, n)) + 0.2
        mask = (rng.random((m, n)) < 0.7) if rng.random() < 0.5 else None
        if mask is not None and mask.sum() < 3:
            mask = None
        d = rng.standard_normal((m, n))
        h = 1e-6
        for name, f in (('mean_square_error', lambda X: cst.mean_square_error(X, D, mask)),
                        ('negative_loglikelihood', lambda X: cst.negative_loglikelihood(np.clip(X, 0.05, 0.95), np.clip(D, 0.05, 0.95), mask)),
                        ('bias_and_gain_invariant_error', lambda X: cst.bias_and_gain_invariant_error(X, D, mask))):
            X = np.clip(Mo, 0.06, 0.94) if name == 'negative_loglikelihood' else Mo
            c0, g = f(X)
            fd = (f(X + h * d)[0] - f(X - h * d)[0]) / (2 * h)
            check(name + '-gradient', bool(np.isclose((g * d).sum(), fd, rtol=1e-4, atol=1e-8)))
        # what makes the returned expression the true gradient: alpha, beta are the least-squares gain and bias, so the cost does
        # not change when the model is rescaled and offset (its documented purpose) and its partial derivatives in them vanish
        # predictions at the very edge of (0, 1): the cost and its derivative are those of the formula, not of a clipped stand-in
        ye = np.array([[3e-17, 1e-300, 0.5], [1 - 1e-16, 1e-9, 1 - 2.5e-16]])
        de = np.clip(rng.random(ye.shape), 0.05, 0.95)
        ce, ge = cst.negative_loglikelihood(ye, de, None)
        want_c = -(de * np.log(ye) + (1 - de) * np.log(1 - ye)).sum() / ye.size
        want_g = (-de / ye + (1 - de) / (1 - ye)) / ye.size
        check('negative_loglikelihood-at-extreme-predictions', bool(np.isclose(ce, want_c, rtol=1e-12) and np.allclose(ge, want_g, rtol=1e-12)))
        ga, of = float(rng.uniform(0.2, 5)), float(rng.uniform(-3, 3))
        check('bias_and_gain_invariant_error-is-invariant',
              bool(np.isclose(cst.bias_and_gain_invariant_error(ga * Mo + of, D, mask)[0], cst.bias_and_gain_invariant_error(Mo, D, mask)[0], rtol=1e-9, atol=1e-12)))
    else:
        DM = get('prysm.x.dm.DM')
        s = int(rng.choice([32, 33]))
        yy, xx = np.mgrid[:s, :s]
        ifn = np.exp(-((yy - s // 2) ** 2 + (xx - s // 2) ** 2) / (2 * 2.0 ** 2))
        if rng.random() < 0.5:
            # an influence function that is not point-symmetric about its centre sample (skewed, peak off the sample)
            ifn = np.exp(-((yy - s // 2 - 0.4) ** 2 / (2 * 1.6 ** 2) + (xx - s // 2 + 0.7) ** 2 / (2 * 2.3 ** 2))) * (1 + 0.3 * np.tanh((xx - s // 2) / 3.0))
        Nact = int(rng.integers(2, 5))
        # resampled output (upsample != 1) in half of the cases; then pad / crop relative to the resampled size
        up = float(rng.choice([1, 1, 1, 2, 0.5, 1.5, 0.75, 1.25]))
        si = int(s * up)
        Nout = int(si + rng.choice([0, 6, -6, 5, -5, -7, 9]))       # pad and crop by even and odd amounts
        shift = (0, 0) if rng.random() < 0.5 else (float(rng.uniform(-1, 1)), float(rng.uniform(-1, 1)))
        dm = DM(ifn, Nout=Nout, Nact=Nact, sep=4, shift=shift, upsample=up)
        acts = rng.standard_normal(dm.actuators.shape)
        dm.update(acts)
        out = dm.render(wfe=True).copy()
        ybar = rng.standard_normal(out.shape)
        back = dm.render_backprop(ybar.copy(), wfe=True)
        check('render-adjoint-%s-influence-function' % ('odd' if s % 2 else 'even'), bool(np.isclose((ybar * out).sum(), (back * acts).sum(), rtol=1e-6)))
        # the resampling step on its own, any shape and zoom: <y, R f> = <R^H y, f>
        ft = get('prysm.fttools')
        mm, nn = int(rng.integers(6, 24)), int(rng.integers(6, 24))
        z = float(rng.choice([2, 0.5, 1.5, 0.75, 1.3]))
        f_ = rng.standard_normal((mm, nn))
        Rf = ft.fourier_resample(f_, z)
        y_ = rng.standard_normal(Rf.shape)
        check('fourier_resample-adjoint', bool(np.isclose((y_ * Rf).sum(), (ft.fourier_resample_backprop(y_, z, (mm, nn)) * f_).sum(), rtol=1e-9)))
