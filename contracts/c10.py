"""C10 — fast modal sums equal explicit sums; least-squares fit inverts synthesis."""
from pvc.api import *
from contracts.polyspec import *


def _jacobi_ab(rng):
    """Jacobi weight parameters: random, or one of the classical special pairs (Legendre, the four Chebyshev kinds, Gegenbauer,
    pairs with alpha + beta = 0 or -1, where the general recurrence coefficients at n = 0 are 0/0 and the code has a special case)"""
    special = [(0.0, 0.0), (-0.5, -0.5), (0.5, 0.5), (-0.5, 0.5), (0.5, -0.5), (0.3, -0.3), (-0.25, -0.75), (1.0, 1.0), (2.0, -0.5),
               (0.1 + 0.2, -0.3), (-0.7 + 1e-17, -0.3), (0.1 + 0.2 - 1.0, -0.3)]      # alpha+beta a rounding error away from 0 / -1
    if rng.random() < 0.4:
        return special[int(rng.integers(0, len(special)))]
    return float(rng.uniform(-0.9, 3)), float(rng.uniform(-0.9, 3))

P = 'prysm.polynomials.'


@harness('C10', 'sum_of_2d_modes/def', variants=[1, 2], fuc=['prysm.polynomials.sum_of_2d_modes'])
def sum_modes(rank):
    """sum_of_2d_modes(modes, weights)[ix] = sum_k weights[k] * modes[k, ix] for every number of modes and coordinate shape."""
    K = Int('K', 1)
    shp = (Int('H', 1),) if rank == 1 else (Int('H', 1), Int('W', 1))
    modes = Array('modes', (K,) + shp)
    w = Array('w', (K,))
    out = call(P + 'sum_of_2d_modes', modes, w)
    check('shape', shape_is(out, *shp))
    ix = tuple(idx(d, 'e%d' % k) for k, d in enumerate(shp))
    check('explicit-sum', eq(elem(out, *ix), sigma(K, lambda k: elem(modes, k, *ix) * elem(w, k))))


@harness('C10', 'jacobi_sum_clenshaw/sum', variants=[1, 2, 3], fuc=['prysm.polynomials.jacobi.jacobi_sum_clenshaw',
                                                                    'prysm.polynomials.jacobi._initialize_alphas'])
def clenshaw_small(L):
    """jacobi_sum_clenshaw(s, a, b, x) = sum_k s_k P_k^(a,b)(x) for coefficient vectors of length L (one obligation per
    L = 1..3: symbolic coefficients, parameters and points; longer vectors are served by the bounded harness)."""
    a, b = Real('alpha'), Real('beta')
    assume(And(a > -1, b > -1))
    N = Int('N', 1)
    x = Array('x', (N,))
    s = [Real('s%d' % k) for k in range(L)]
    i = idx(N, 'i')
    out = call(P + 'jacobi.jacobi_sum_clenshaw', s, a, b, x)
    want = 0
    for k in range(L):
        want = want + s[k] * JAC.at(k, a, b, elem(x, i))
    check('explicit-sum', approx(elem(out, i), want, 1e-7))


@harness('C10', 'recurrence_abc/three-term-of-jacobi', variants=['n>=1', 'n=0'], fuc=['prysm.polynomials.jacobi.recurrence_abc'])
def abc_three_term(v):
    """the contract of recurrence_abc that jacobi_sum_clenshaw/any-length assumes of its callee, proved of the REAL body against the
    spec function jacobi (DLMF 18.9): with (a_n, b_n, c_n) = recurrence_abc(n, alpha, beta),
    P_{n+1}(x) = (a_n x + b_n) P_n(x) - c_n P_{n-1}(x) for every n >= 1, and P_1(x) = a_0 x + b_0 (alpha + beta in {0, -1} included)."""
    a, b = Real('alpha'), Real('beta')
    assume(And(a > -1, b > -1))
    x = Real('x')
    if v == 'n>=1':
        n = Int('n', 1)
        A, B, C = call(P + 'jacobi.recurrence_abc', n, a, b)
        check('three-term', approx(JAC.at(n + 1, a, b, x), (A * x + B) * JAC.at(n, a, b, x) - C * JAC.at(n - 1, a, b, x), 1e-7))
    else:
        A, B, C = call(P + 'jacobi.recurrence_abc', 0, a, b)
        check('first-order', approx(JAC.at(1, a, b, x), A * x + B, 1e-9))


def _seed_exact_zeros(v):
    """concrete cover only: in about half of the runs put exact zeros into the coefficient vector (leading entry, trailing entry or
    an interior one, chosen from the data) -- sparse vectors are ordinary inputs, and random draws never contain an exact zero"""
    n = len(v)
    k = int(abs(float(v[-1])) * 1e6) % 6
    if n >= 2 and k == 0:
        v[0] = 0.0
    elif n >= 2 and k == 1:
        v[-1] = 0.0
    elif n >= 3 and k == 2:
        v[n // 2] = 0.0
        v[0] = 0.0


def _coords(kind):
    """a coordinate input of the given rank: (the argument, the value at one arbitrary element, its dims, that element's index)"""
    if kind == 'scalar':
        x = Real('x')
        return x, x, (), ()
    dims = (Int('N', 1),) if kind == '1d' else (Int('H', 1), Int('W', 1))
    xin = Array('x', dims)
    ix = tuple(idx(d, 'e%d' % k) for k, d in enumerate(dims))
    return xin, elem(xin, *ix), dims, ix


class ClenshawInv(Invariant):
    """loop `for n in range(M-2, -1, -1)` of jacobi_sum_clenshaw, indexed by the next n.  With S(r) = sum_{k<r} s_k P_k (ghost prefix
    sum, defined by S(0) = 0, S(r+1) = S(r) + s_r P_r) the rows n+1, n+2 of `alphas` already written satisfy
        S(M+1) = S(n+1) + alphas[n+1] P_{n+1} - c_{n+1} alphas[n+2] P_n          (n >= 0)
        S(M+1) = alphas[0]                                                          (n = -1, the loop's exit)
    which is Clenshaw's identity (c_k: third coefficient of the three-term recurrence, as contracted in C07 recurrence_abc/dlmf).
    a, b, c, _ are re-assigned before use in the body (dead at the loop head)."""
    def __init__(self, S, P, Cc, tag, col=None, M=None):
        self.S, self.P, self.Cc, self.tag, self.col, self.M = S, P, Cc, tag, col or ((), ()), M      # col = (coordinate dims, element index)

    def _rel(self, env, al, n):
        M = self.M          # = len(coefficients) - 1, from the harness: the invariant does not depend on the body's name for it
        at = lambda r: elem(al, r, *self.col[1])
        if n >= 0:
            return eq(self.S(M + 1), self.S(n + 1) + at(n + 1) * self.P(n + 1) - self.Cc(n + 1) * at(n + 2) * self.P(n))
        return eq(self.S(M + 1), at(0))

    def state(self, env, n):
        from pvc.symcore import ctx
        M = self.M          # = len(coefficients) - 1, from the harness: the invariant does not depend on the body's name for it
        al = Array(ctx.fresh_name('alphas_' + self.tag), (M + 1,) + tuple(self.col[0]))
        assume(self._rel(env, al, n))
        return {'alphas': al, 'a': env.get('a'), 'b': env.get('b'), 'c': env.get('c'), '_': env.get('_')}

    def holds(self, env, n):
        yield 'clenshaw-identity', self._rel(env, env['alphas'], n)


@harness('C10', 'jacobi_sum_clenshaw/any-length', variants=['scalar', '1d', '2d', '1d-buffer'], fuc=['prysm.polynomials.jacobi.jacobi_sum_clenshaw',
                                                                            'prysm.polynomials.jacobi._initialize_alphas'])
def clenshaw_any(kind):
    """jacobi_sum_clenshaw(s, a, b, x) = sum_{k<len(s)} s_k P_k^(a,b)(x) for coefficient vectors of EVERY length (symbolic length,
    symbolic coefficients and parameters; a scalar point, or an arbitrary element of a 1-D or 2-D coordinate array of symbolic extent): the descending loop is cut by Clenshaw's identity as its invariant (ClenshawInv),
    the explicit sum is a ghost prefix-sum function unfolded at the indices the proof touches.  Modular on recurrence_abc: the callee
    is replaced by opaque coefficient functions (a_k, b_k, c_k) about which only its contract is known -- P_0 = 1, P_1 = a_0 x + b_0,
    P_{k+1} = (a_k x + b_k) P_k - c_k P_{k-1} for k >= 1 -- which is what C07 recurrence_abc/dlmf proves of the real body against
    DLMF 18.9.2 and what the spec function `jacobi` is defined by."""
    a, b = Real('alpha'), Real('beta')
    assume(And(a > -1, b > -1))
    L = Int('L', 1)
    s = Array('s', (L,))
    xin, x, dims, ix = _coords(kind.split('-')[0])
    pick = lambda arr: elem(arr, *ix) if ix else arr
    # '-buffer': the caller supplies the work array (documented `alphas` argument, arbitrary previous content): same sum, returned from
    # row 0 of that array
    kw = dict(alphas=Array('buf', (L,) + tuple(dims))) if kind.endswith('-buffer') else {}
    if MODE != 'symbolic':
        _seed_exact_zeros(s)
        out = call(P + 'jacobi.jacobi_sum_clenshaw', s, a, b, xin, **kw)
        if kw:
            check('sum-is-row-0-of-the-buffer', approx(pick(kw['alphas'][0]), pick(out), 1e-12))
        want = 0
        for k in range(L):
            want = want + s[k] * JAC.at(k, a, b, x)
        if dims:
            check('shape', shape_is(out, *dims))
        check('explicit-sum', approx(pick(out), want, 1e-7))
        return
    import z3
    from pvc import symcore as sc
    fs = {}
    for nm in ('ghost_clenshaw_prefix_sum', 'callee_recurrence_a', 'callee_recurrence_b', 'callee_recurrence_c', 'ghost_jacobi_at_x'):
        fs[nm] = z3.Function(nm, z3.IntSort(), z3.RealSort())
        sc.ATOM_NAMES.add(nm)
    app = lambda nm, r: sc.SReal(fs[nm](z3.simplify(sc.lift(r).z)))
    sc.ctx.prefer_cli = True
    sc.ctx.axiom_log.add('ghost:clenshaw_prefix_sum S(0) = 0, S(r) = S(r-1) + s[r-1] P_{r-1}(x) (definition of the explicit sum, instantiated at use sites)')
    sc.ctx.axiom_log.add('callee-contract:prysm.polynomials.jacobi.recurrence_abc = three-term recurrence coefficients of the spec function jacobi '
                         '(C07 recurrence_abc/dlmf), instantiated at use sites')
    assume(app('ghost_clenshaw_prefix_sum', 0) == 0)
    assume(app('ghost_jacobi_at_x', 0) == 1)
    assume(app('ghost_jacobi_at_x', 1) == app('callee_recurrence_a', 0) * x + app('callee_recurrence_b', 0))

    def Pk(k):
        """P_k(x) with the recurrence contract instantiated at k (k >= 2)"""
        v = app('ghost_jacobi_at_x', k)
        assume(Implies(k >= 2, v == (app('callee_recurrence_a', k - 1) * x + app('callee_recurrence_b', k - 1)) * app('ghost_jacobi_at_x', k - 1)
                       - app('callee_recurrence_c', k - 1) * app('ghost_jacobi_at_x', k - 2)))
        return v

    def S(r, depth=2):
        """S(r) with its definition instantiated at r and r - 1"""
        v = app('ghost_clenshaw_prefix_sum', r)
        assume(Implies(And(r >= 1, r <= L), v == app('ghost_clenshaw_prefix_sum', r - 1) + elem(s, r - 1) * Pk(r - 1)))
        if depth > 1:
            S(r - 1, depth - 1)
        return v

    def abc(n, al, be):
        return app('callee_recurrence_a', n), app('callee_recurrence_b', n), app('callee_recurrence_c', n)
    with stub('prysm.polynomials.jacobi', 'recurrence_abc', abc):
        with cut_loops(P + 'jacobi.jacobi_sum_clenshaw', {0: ClenshawInv(S, Pk, lambda k: app('callee_recurrence_c', k), 'it', (dims, ix), L - 1)}) as f:
            out = f(s, a, b, xin, **kw)
    if dims:
        check('shape', shape_is(out, *dims))
    check('explicit-sum', approx(pick(out), S(L), 1e-7))


class QbfsClenshawInv(Invariant):
    """loop `for i in range(M-2, -1, -1)` of clenshaw_qbfs, indexed by the next i: with S(r) = sum_{k<r} b_k P_k (ghost prefix sum) and
    Forbes' auxiliary polynomials P_0 = 2, P_1 = 6 - 8x, P_{k+1} = (2 - 4x) P_k - P_{k-1} (oe-18-19-19700 A.4), the rows i+1, i+2 of
    `alphas` satisfy   S(M+1) = S(i+1) + alphas[i+1] P_{i+1} + alphas[i+2] (P_{i+2} - (2 - 4x) P_{i+1})   for every i >= -1."""
    def __init__(self, S, P, x, tag, col=None, M=None):
        self.S, self.P, self.x, self.tag, self.col, self.M = S, P, x, tag, col or ((), ()), M

    def _rel(self, env, al, i):
        M = self.M          # = len(coefficients) - 1, from the harness: the invariant does not depend on the body's name for it
        at = lambda r: elem(al, r, *self.col[1])
        return eq(self.S(M + 1), self.S(i + 1) + at(i + 1) * self.P(i + 1)
                  + at(i + 2) * (self.P(i + 2) - (2 - 4 * self.x) * self.P(i + 1)))

    def state(self, env, i):
        from pvc.symcore import ctx
        M = self.M          # = len(coefficients) - 1, from the harness: the invariant does not depend on the body's name for it
        al = Array(ctx.fresh_name('alphas_' + self.tag), (M + 1,) + tuple(self.col[0]))
        assume(self._rel(env, al, i))
        return {'alphas': al}

    def holds(self, env, i):
        yield 'clenshaw-identity', self._rel(env, env['alphas'], i)


@harness('C10', 'clenshaw_qbfs/any-length', variants=['scalar', '1d', '2d'], fuc=['prysm.polynomials.qpoly.clenshaw_qbfs',
                                                                       'prysm.polynomials.jacobi._initialize_alphas'])
def clenshaw_qbfs_any(kind):
    """clenshaw_qbfs(cs, x) = x (1 - x) sum_{k<len(cs)} b_k P_k(x) for coefficient vectors of EVERY length, where b =
    change_basis_Qbfs_to_Pn(cs) (callee, replaced by an opaque vector of the same length: its own correctness is the bounded
    harness's) and P_k are Forbes' auxiliary polynomials: the summation loop is cut by Clenshaw's identity (QbfsClenshawInv)."""
    L = Int('L', 1)
    cs = Array('cs', (L,))
    xin, x, dims, ix = _coords(kind)
    pick = lambda arr: elem(arr, *ix) if ix else arr
    if MODE != 'symbolic':
        import numpy as np
        _seed_exact_zeros(cs)
        out = pick(call(P + 'qpoly.clenshaw_qbfs', cs, xin))
        bs = get(P + 'qpoly.change_basis_Qbfs_to_Pn')(cs)
        Pn = [2.0, 6 - 8 * x]
        for k in range(2, L):
            Pn.append((2 - 4 * x) * Pn[-1] - Pn[-2])
        want = x * (1 - x) * sum(float(bs[k]) * Pn[k] for k in range(L))
        check('explicit-sum', approx(out, want, 1e-7))
        return
    import z3
    from pvc import symcore as sc
    fs = {}
    for nm in ('ghost_qbfs_prefix_sum', 'ghost_forbes_aux_P'):
        fs[nm] = z3.Function(nm, z3.IntSort(), z3.RealSort())
        sc.ATOM_NAMES.add(nm)
    app = lambda nm, r: sc.SReal(fs[nm](z3.simplify(sc.lift(r).z)))
    sc.ctx.prefer_cli = True
    sc.ctx.axiom_log.add('ghost:qbfs_prefix_sum S(0) = 0, S(r) = S(r-1) + b[r-1] P_{r-1}(x); forbes_aux_P P_0 = 2, P_1 = 6 - 8x, '
                         'P_k = (2 - 4x) P_{k-1} - P_{k-2} (definitions, instantiated at use sites)')
    bs = Array('bs', (L,))
    assume(app('ghost_qbfs_prefix_sum', 0) == 0)
    assume(app('ghost_forbes_aux_P', 0) == 2)
    assume(app('ghost_forbes_aux_P', 1) == 6 - 8 * x)

    def Pk(k):
        v = app('ghost_forbes_aux_P', k)
        assume(Implies(k >= 2, v == (2 - 4 * x) * app('ghost_forbes_aux_P', k - 1) - app('ghost_forbes_aux_P', k - 2)))
        return v

    def S(r, depth=2):
        v = app('ghost_qbfs_prefix_sum', r)
        assume(Implies(And(r >= 1, r <= L), v == app('ghost_qbfs_prefix_sum', r - 1) + elem(bs, r - 1) * Pk(r - 1)))
        if depth > 1:
            S(r - 1, depth - 1)
        return v
    with stub('prysm.polynomials.qpoly', 'change_basis_Qbfs_to_Pn', lambda c: bs):
        with cut_loops(P + 'qpoly.clenshaw_qbfs', {0: QbfsClenshawInv(S, Pk, x, 'q', (dims, ix), L - 1)}) as f:
            out = f(cs, xin)
    if dims:
        check('shape', shape_is(out, *dims))
    check('explicit-sum', approx(pick(out), x * (1 - x) * S(L), 1e-7))


class BackSubstInv(Invariant):
    """loop `for i in range(M-2, -1, -1)` of change_basis_Qbfs_to_Pn, indexed by the next i: every row r > i already written solves its
    equation of the upper-triangular system  f_r b_r + g_r b_{r+1} + h_r b_{r+2} = c_r  (b beyond M read as 0).  Stated at one arbitrary
    row r (skolem): the body writes only bs[i], so rows above are framed."""
    def __init__(self, rel, r, tag, M=None):
        self.rel, self.r, self.tag, self.M = rel, r, tag, M

    def state(self, env, i):
        from pvc.symcore import ctx
        M = self.M          # = len(coefficients) - 1, from the harness: the invariant does not depend on the body's name for it
        bs = Array(ctx.fresh_name('bs_' + self.tag), (M + 1,))
        assume(Implies(self.r > i, self.rel(bs, self.r, M)))
        return {'bs': bs, 'g': env.get('g'), 'h': env.get('h'), 'f': env.get('f')}

    def holds(self, env, i):
        yield 'rows-above-solved', Implies(self.r > i, self.rel(env['bs'], self.r, self.M))


@harness('C10', 'change_basis_Qbfs_to_Pn/back-substitution', variants=['array'], fuc=['prysm.polynomials.qpoly.change_basis_Qbfs_to_Pn'])
def change_basis_rows(kind):
    """change_basis_Qbfs_to_Pn(cs) = b solves, for EVERY length and every row r, the triangular system that defines the Qbfs
    polynomials in terms of Forbes' auxiliary polynomials (oe-18-19-19700 A.14: f_r b_r + g_r b_{r+1} + h_r b_{r+2} = c_r, terms beyond
    the last row absent), and has the length of cs.  Modular on f_qbfs / g_qbfs / h_qbfs (opaque, f_r != 0: they are square roots of
    positive numbers, checked by the bounded harnesses through Qbfs itself); the back-substitution loop is cut by BackSubstInv."""
    L = Int('L', 1)
    cs = Array('cs', (L,))
    if MODE != 'symbolic':
        import numpy as np
        bs = call(P + 'qpoly.change_basis_Qbfs_to_Pn', cs)
        q = get(P + 'qpoly')
        r = idx(L, 'r')
        lhs = q.f_qbfs(r) * bs[r] + (q.g_qbfs(r) * bs[r + 1] if r + 1 < L else 0) + (q.h_qbfs(r) * bs[r + 2] if r + 2 < L else 0)
        check('length', len(bs) == L)
        check('row-solved', approx(float(lhs), float(cs[r]), 1e-9))
        return
    import z3
    from pvc import symcore as sc
    fs = {}
    for nm in ('callee_f_qbfs', 'callee_g_qbfs', 'callee_h_qbfs'):
        fs[nm] = z3.Function(nm, z3.IntSort(), z3.RealSort())
        sc.ATOM_NAMES.add(nm)
    app = lambda nm, k: sc.SReal(fs[nm](z3.simplify(sc.lift(k).z)))
    sc.ctx.prefer_cli = True
    sc.ctx.axiom_log.add('callee-contract:prysm.polynomials.qpoly.f_qbfs / g_qbfs / h_qbfs = opaque coefficient functions, f_qbfs(n) != 0')

    def fq(k):
        v = app('callee_f_qbfs', k)
        assume(v != 0)
        return v
    r = idx(L, 'r')

    def rel(bs, rr, M):
        t1 = ite(rr + 1 <= M, app('callee_g_qbfs', rr) * elem(bs, ite(rr + 1 <= M, rr + 1, M)), 0)
        t2 = ite(rr + 2 <= M, app('callee_h_qbfs', rr) * elem(bs, ite(rr + 2 <= M, rr + 2, M)), 0)
        return eq(fq(rr) * elem(bs, rr) + t1 + t2, elem(cs, rr))
    with stub('prysm.polynomials.qpoly', 'f_qbfs', fq), stub('prysm.polynomials.qpoly', 'g_qbfs', lambda k: app('callee_g_qbfs', k)), \
            stub('prysm.polynomials.qpoly', 'h_qbfs', lambda k: app('callee_h_qbfs', k)):
        with cut_loops(P + 'qpoly.change_basis_Qbfs_to_Pn', {0: BackSubstInv(rel, r, 'b', L - 1)}) as f:
            bs = f(cs)
    check('length', shape_is(bs, L))
    check('row-solved', rel(bs, r, L - 1))


@harness('C10', 'bounded/fast-sums-and-lstsq', kind='bounded',
         variants=['sum_of_2d_modes', 'jacobi_sum_clenshaw', 'clenshaw_qbfs', 'compute_z_Qcon', 'compute_z_Q2d', 'Q2d_nm_c_to_a_b', 'lstsq', 'fit_plane'],
         fuc=['prysm.polynomials.sum_of_2d_modes', 'prysm.polynomials.jacobi.jacobi_sum_clenshaw', 'prysm.polynomials.qpoly.clenshaw_qbfs', 'prysm.polynomials.qpoly.compute_z_zprime_Qcon',
              'prysm.polynomials.qpoly.compute_z_zprime_Q2d', 'prysm.polynomials.qpoly.Q2d_nm_c_to_a_b', 'prysm.polynomials.lstsq',
              'prysm.interferogram.fit_plane'])
def bounded_sums(which):
    """BOUNDED (not a proof): seeded coefficient sets (dense, sparse, single-term, cosine-only / sine-only azimuthal content,
    unequal and empty radial families, lengths 1..10) against the explicit sum of coefficient times mode; least-squares fit of
    data synthesised from independent modes with seeded NaN masks returns the synthesising coefficients."""
    import numpy as np
    rng = np.random.default_rng(Int('seed', 0, 10 ** 6))
    Q = P + 'qpoly.'
    tol = dict(rtol=1e-8, atol=1e-9)
    u = vary_layout(rng, rng.uniform(0.05, 0.95, (3, 4)))      # coordinates in any memory layout
    t = vary_layout(rng, rng.uniform(-3, 3, (3, 4)))
    if which == 'sum_of_2d_modes':
        # coefficient vectors of every magnitude (a surface in metres has weights ~1e-9; mixed magnitudes; exact zeros), compared
        # relative to the size of the terms: the contraction is linear, so no weight is "too small to count"
        K = int(rng.integers(1, 8))
        shp = (int(rng.integers(1, 6)),) if rng.random() < 0.3 else (int(rng.integers(1, 6)), int(rng.integers(1, 6)))
        modes = rng.standard_normal((K,) + shp)
        w = rng.standard_normal(K) * 10.0 ** rng.integers(-14, 4, K if rng.random() < 0.5 else 1)
        if rng.random() < 0.3:
            w[rng.integers(0, K)] = 0.0
        want = sum(w[k] * modes[k] for k in range(K))
        got = get(P + 'sum_of_2d_modes')(modes, w)
        scale = sum(abs(w[k] * modes[k]) for k in range(K))
        check('shape', np.shape(got) == shp)
        check('explicit-sum-relative-to-term-size', bool(np.all(abs(got - want) <= 1e-12 * scale)))
    elif which == 'jacobi_sum_clenshaw':
        a, b = _jacobi_ab(rng)
        L = int(rng.integers(1, 11))
        s = rng.standard_normal(L)
        if rng.random() < 0.4:
            s[rng.integers(0, L, max(1, L // 2))] = 0
        x = rng.uniform(-1, 1, (3, 4))
        want = sum(s[k] * get(P + 'jacobi.jacobi')(k, a, b, x) for k in range(L))
        keep = s.copy()
        check('explicit-sum', bool(np.allclose(get(P + 'jacobi.jacobi_sum_clenshaw')(s, a, b, x), want, **tol)))
        check('explicit-sum-on-second-call-with-the-same-array', bool(np.allclose(get(P + 'jacobi.jacobi_sum_clenshaw')(s, a, b, x), want, **tol)))
        check('coefficients-untouched', bool(np.array_equal(s, keep)))
    elif which == 'clenshaw_qbfs':
        L = int(rng.integers(1, 11))
        cs = rng.standard_normal(L)
        want = sum(cs[k] * get(Q + 'Qbfs')(k, u) for k in range(L))
        keep = cs.copy()
        check('explicit-sum', bool(np.allclose(get(Q + 'clenshaw_qbfs')(cs, u * u), want, **tol)))
        # the evaluators work on an internal change of basis: it must not be written into the caller's coefficient array
        check('explicit-sum-on-second-call-with-the-same-array', bool(np.allclose(get(Q + 'clenshaw_qbfs')(cs, u * u), want, **tol)))
        z_ = get(Q + 'compute_z_zprime_Qbfs')(cs, u, u * u)[0]
        check('compute_z_zprime_Qbfs-explicit-sum', bool(np.allclose(z_, want, **tol)))
        check('coefficients-untouched', bool(np.array_equal(cs, keep)))
    elif which == 'compute_z_Qcon':
        L = int(rng.integers(1, 11))
        cs = rng.standard_normal(L)
        want = sum(cs[k] * get(Q + 'Qcon')(k, u) for k in range(L))
        keep = cs.copy()
        check('explicit-sum', bool(np.allclose(get(Q + 'compute_z_zprime_Qcon')(cs, u, u * u)[0], want, **tol)))
        check('explicit-sum-on-second-call-with-the-same-array', bool(np.allclose(get(Q + 'compute_z_zprime_Qcon')(cs, u, u * u)[0], want, **tol)))
        check('coefficients-untouched', bool(np.array_equal(cs, keep)))
    elif which == 'compute_z_Q2d':
        cm0 = list(rng.standard_normal(int(rng.integers(0, 4))))
        M = int(rng.integers(0, 6))
        style = rng.choice(['both', 'cos-only', 'sin-only', 'ragged', 'gaps'])
        ams, bms = [], []
        for _ in range(M):
            la, lb = int(rng.integers(1, 5)), int(rng.integers(1, 5))
            if style == 'cos-only':
                lb = 0
            elif style == 'sin-only':
                la = 0
            elif style == 'ragged' and rng.random() < 0.5:
                la, lb = (0, lb) if rng.random() < 0.5 else (la, 0)
            elif style == 'gaps' and rng.random() < 0.5:
                la, lb = 0, 0          # an azimuthal order with no terms at all below a populated one
            ams.append(list(rng.standard_normal(la)))
            bms.append(list(rng.standard_normal(lb)))
        if rng.random() < 0.5:
            # coefficient vectors as float64 arrays (what an optimiser holds) instead of lists
            cm0, ams, bms = np.array(cm0, dtype=float), [np.array(v, dtype=float) for v in ams], [np.array(v, dtype=float) for v in bms]
        keep = (np.array(cm0, dtype=float).copy(), [np.array(v, dtype=float).copy() for v in ams], [np.array(v, dtype=float).copy() for v in bms])
        get(Q + 'compute_z_zprime_Q2d')(cm0, ams, bms, u, t)
        z = get(Q + 'compute_z_zprime_Q2d')(cm0, ams, bms, u, t)[0]          # second call with the same objects
        check('coefficients-untouched', bool(np.array_equal(np.array(cm0, dtype=float), keep[0]) and
                                             all(np.array_equal(np.array(v, dtype=float), k_) for v, k_ in zip(ams, keep[1])) and
                                             all(np.array_equal(np.array(v, dtype=float), k_) for v, k_ in zip(bms, keep[2]))))
        want = np.zeros_like(u)
        for n, c in enumerate(cm0):
            want = want + c * get(Q + 'Qbfs')(n, u)
        for m, (aa, bb) in enumerate(zip(ams, bms), 1):
            for n, c in enumerate(aa):
                want = want + c * get(Q + 'Q2d')(n, m, u, t)
            for n, c in enumerate(bb):
                want = want + c * get(Q + 'Q2d')(n, -m, u, t)
        check('explicit-sum', bool(np.allclose(z, want, **tol)))
    elif which == 'Q2d_nm_c_to_a_b':
        style = rng.choice(['both', 'cos-only', 'sin-only', 'm0-only'])
        nms = []
        while len(nms) < int(rng.integers(1, 8)):
            n, m = int(rng.integers(0, 5)), int(rng.integers(-3, 4))
            if style == 'cos-only':
                m = abs(m)
            elif style == 'sin-only':
                m = -abs(m)
            elif style == 'm0-only':
                m = 0
            if (n, m) not in nms:
                nms.append((n, m))
        coefs = list(rng.standard_normal(len(nms)))
        cms, ams, bms = get(Q + 'Q2d_nm_c_to_a_b')(nms, coefs)
        back = {}
        for n, c in enumerate(cms):
            back[(n, 0)] = c
        for m, aa in enumerate(ams, 1):
            for n, c in enumerate(aa):
                back[(n, m)] = c
        for m, bb in enumerate(bms, 1):
            for n, c in enumerate(bb):
                back[(n, -m)] = c
        good = all(np.isclose(back.get(k, 0), v) for k, v in zip(nms, coefs)) and \
            all(np.isclose(v, 0) for k, v in back.items() if k not in nms)
        check('pack-roundtrip', bool(good))
    elif which == 'lstsq':
        H, W = int(rng.integers(5, 9)), int(rng.integers(5, 9))
        xx, yy = np.meshgrid(np.linspace(-1, 1, W), np.linspace(-1, 1, H))
        modes = np.array([np.ones_like(xx), xx, yy, xx * yy, xx * xx - yy * yy][:int(rng.integers(2, 6))])
        c = rng.standard_normal(len(modes))
        data = np.tensordot(modes, c, axes=(0, 0))
        nanmask = rng.random((H, W)) < 0.25
        data = data.copy()
        # "ignoring exactly the non-finite samples": NaN, +inf and -inf all mark a sample as invalid
        data[nanmask] = rng.choice([np.nan, np.inf, -np.inf], size=int(nanmask.sum()), p=[0.6, 0.2, 0.2])
        if rng.random() < 0.3:
            data[0, :] = np.nan
        # the same samples in every memory layout: C order, Fortran order, a transposed view
        layout = int(rng.integers(0, 3))
        if layout == 1:
            data = np.asfortranarray(data)
        elif layout == 2:
            data = np.ascontiguousarray(data.T).T
        if rng.random() < 0.3:
            modes = np.asfortranarray(modes)
        got = get(P + 'lstsq')(modes, data)
        check('recovers-coefficients', bool(np.allclose(got, c, rtol=1e-7, atol=1e-8)))
        # a basis that was itself blanked (NaN) outside the aperture, i.e. exactly where the data are invalid: those samples are
        # ignored, whatever the modes hold there
        mb = np.array(modes, dtype=float, copy=True)
        mb[:, ~np.isfinite(data)] = np.nan
        got_b = get(P + 'lstsq')(mb, data)
        check('recovers-coefficients-with-a-blanked-basis', bool(np.allclose(got_b, c, rtol=1e-7, atol=1e-8)))
    else:
        H, W = int(rng.integers(5, 9)), int(rng.integers(5, 9))
        xx, yy = np.meshgrid(np.arange(W) - W // 2, np.arange(H) - H // 2)
        a, b = rng.standard_normal(2)
        z = (a * xx + b * yy).astype(float)          # fit_plane models tip and tilt only (no piston term)
        bad = rng.random((H, W)) < 0.2
        z[bad] = rng.choice([np.nan, np.inf, -np.inf], size=int(bad.sum()), p=[0.6, 0.2, 0.2])
        fit = get('prysm.interferogram.fit_plane')(xx.astype(float), yy.astype(float), z)
        fin = np.isfinite(z)
        check('plane-recovered', bool(np.allclose(fit[fin], z[fin], rtol=1e-8, atol=1e-8)))
