"""C11 — Zernike and XY index conventions are bijections onto valid orders.

Float semantics (A1): np.sqrt(u) is the real w >= 0 with w*w = u; ceil/floor/int are exact.
The stand-in for the float assumption is the exhaustive bounded harness at the end (labelled bounded)."""
from pvc.api import *

Z = 'prysm.polynomials.zernike.'
XY = 'prysm.polynomials.xy.'


def valid_nm(n, m):
    am = ite(m >= 0, m, -m)
    return And(n >= 0, am <= n, (n - am) % 2 == 0)


# ------------------------------------------------------------------------------------ ANSI
def ansi_inv(n, m):
    return (n * (n + 2) + m) / 2


@harness('C11', 'ansi/valid-and-roundtrip', fuc=['prysm.polynomials.zernike.ansi_j_to_nm', 'prysm.polynomials.zernike.nm_to_ansi_j'])
def ansi_forward():
    """every j >= 0 maps to a valid (n,m); nm_to_ansi_j undoes it; j = (n(n+2)+m)/2."""
    j = Int('j', 0)
    n, m = call(Z + 'ansi_j_to_nm', j)
    check('valid', valid_nm(n, m))
    check('formula', 2 * j == n * (n + 2) + m)
    check('roundtrip', call(Z + 'nm_to_ansi_j', n, m) == j)


@harness('C11', 'ansi/surjective', fuc=['prysm.polynomials.zernike.ansi_j_to_nm', 'prysm.polynomials.zernike.nm_to_ansi_j'])
def ansi_backward():
    """every valid (n,m) is hit: ansi_j_to_nm(nm_to_ansi_j(n,m)) = (n,m) and the index is >= 0."""
    n, m = Int('n', 0), Int('m')
    assume(valid_nm(n, m))
    j = call(Z + 'nm_to_ansi_j', n, m)
    check('index-nonneg', j >= 0)
    check('formula', 2 * j == n * (n + 2) + m)
    n2, m2 = call(Z + 'ansi_j_to_nm', j)
    check('roundtrip', And(n2 == n, m2 == m))


# ------------------------------------------------------------------------------------ Fringe
@harness('C11', 'fringe/valid-and-roundtrip', fuc=['prysm.polynomials.zernike.fringe_to_nm', 'prysm.polynomials.zernike.nm_to_fringe'])
def fringe_forward():
    j = Int('j', 1)
    n, m = call(Z + 'fringe_to_nm', j)
    check('valid', valid_nm(n, m))
    check('roundtrip', call(Z + 'nm_to_fringe', n, m) == j)


@harness('C11', 'fringe/surjective', fuc=['prysm.polynomials.zernike.fringe_to_nm', 'prysm.polynomials.zernike.nm_to_fringe'])
def fringe_backward():
    n, m = Int('n', 0), Int('m')
    assume(valid_nm(n, m))
    j = call(Z + 'nm_to_fringe', n, m)
    check('index-positive', j >= 1)
    am = ite(m >= 0, m, -m)
    hint((n + am) // 2 + 1, (n + am) // 2)       # where the ceil(sqrt(j)) characterisation is instantiated
    n2, m2 = call(Z + 'fringe_to_nm', j)
    check('roundtrip', And(n2 == n, m2 == m))


# ------------------------------------------------------------------------------------ Noll
class NollMs(Invariant):
    """ms after i iterations: n odd: [1,1,3,3,...] (2+2i entries), n even: [0,2,2,4,4,...] (1+2i entries)"""
    def _formula(self, n, p):
        odd = n % 2 != 0
        return ite(odd, 2 * (p // 2) + 1, 2 * ((p + 1) // 2))

    def _len(self, n, i):
        return ite(n % 2 != 0, 2 + 2 * i, 1 + 2 * i)

    def state(self, env, i):
        n = env['n']
        return {'ms': SList(self._len(n, i), lambda p: self._formula(n, p))}

    def holds(self, env, i):
        n, ms = env['n'], env['ms']
        L = self._len(n, i)
        yield 'length', seq_len(ms) == L
        p = skolem(L, 'p')
        yield 'entries', seq_get(ms, p) == self._formula(n, p)


def noll(j):
    with cut_loops(Z + 'noll_to_nm', {0: NollMs()}) as f:
        return f(j)


def noll_inv(n, m):
    """spec-level inverse (written from Noll's ordering rule, not from the code)"""
    am = ite(m >= 0, m, -m)
    j0 = n * (n + 1) / 2 + am
    return ite(m == 0, n * (n + 1) / 2 + 1, ite((j0 % 2 == 0) == (m > 0), j0, j0 + 1))


@harness('C11', 'noll/valid-order-inverse', fuc=['prysm.polynomials.zernike.noll_to_nm', 'prysm.mathops.is_odd'])
def noll_forward():
    """valid order; even index <-> cosine (m>0), odd <-> sine (m<0); index lies in radial block n; the
    spec inverse recovers j (hence injective)."""
    j = Int('j', 1)
    n, m = noll(j)
    check('valid', valid_nm(n, m))
    check('block', And(n * (n + 1) < 2 * j, 2 * j <= (n + 1) * (n + 2)))
    check('even-cosine', Implies(m != 0, (j % 2 == 0) == (m > 0)))
    check('inverse', noll_inv(n, m) == j)


@harness('C11', 'noll/surjective', fuc=['prysm.polynomials.zernike.noll_to_nm'])
def noll_backward():
    n, m = Int('n', 0), Int('m')
    assume(valid_nm(n, m))
    j = noll_inv(n, m)
    check('index-positive', j >= 1)
    hint(n + 1, n)
    n2, m2 = noll(floor(j) if MODE == 'symbolic' else int(j))
    check('roundtrip', And(n2 == n, m2 == m))


@harness('C11', 'noll/radial-order-monotone', fuc=['prysm.polynomials.zernike.noll_to_nm'])
def noll_monotone():
    """n(j) <= n(j+1), and |m| is non-decreasing inside a radial block."""
    j = Int('j', 1)
    n1, m1 = noll(j)
    n2, m2 = noll(j + 1)
    check('n-monotone', n1 <= n2)
    a1, a2 = ite(m1 >= 0, m1, -m1), ite(m2 >= 0, m2, -m2)
    check('abs-m-monotone-in-block', Implies(n1 == n2, a1 <= a2))


# ------------------------------------------------------------------------------------ XY monomials
class XYk(PredInvariant):
    """while max_j < j: k grows until the triangular number max_j = (k-1)k/2 reaches j"""
    vars = {'k': 'int', 'max_j': 'int'}

    def pred(self, v, env, i):
        k, mj, j = v['k'], v['max_j'], env['j']
        return [('triangular', Or(And(k == 2, mj == 3), And(k >= 3, 2 * mj == (k - 1) * k, (k - 2) * (k - 1) < 2 * j)))]

    def state(self, env, i):
        v = PredInvariant.state(self, env, i)
        # instances of lemma/triangular-monotone (proved separately) at the harness' hint terms
        if MODE == 'symbolic':
            from pvc.symcore import ctx, SInt
            k = v['k']
            for t in list(ctx.hints):
                if isinstance(t, SInt):
                    assume(Implies(And(0 <= k - 1, k - 1 <= t), (k - 1) * k <= t * (t + 1)))
                    assume(Implies(And(0 <= t, t <= k - 2), t * (t + 1) <= (k - 2) * (k - 1)))
        return v


class XYwalkY(PredInvariant):
    """walk down from the pure-y term: x + y = k - 2, jj + x = largest_pure_y_term, jj >= j"""
    vars = {'jj': 'int', 'x': 'int', 'y': 'int'}

    def pred(self, v, env, i):
        return [('degree', v['x'] + v['y'] == env['k'] - 2), ('position', v['jj'] + v['x'] == env['largest_pure_y_term']),
                ('bounds', And(v['jj'] >= env['j'], v['x'] >= 0))]


class XYwalkX(PredInvariant):
    vars = {'jj': 'int', 'x': 'int', 'y': 'int'}

    def pred(self, v, env, i):
        return [('degree', v['x'] + v['y'] == env['k'] - 2), ('position', v['jj'] - v['y'] == env['largest_pure_x_term']),
                ('bounds', And(v['jj'] <= env['j'], v['y'] >= 0))]


def xy(j):
    with cut_loops(XY + 'xy_j_to_mn', {0: XYk(), 1: XYwalkY(), 2: XYwalkX()}) as f:
        return f(j)


def xy_inv(m, n):
    d = m + n
    return (d + 1) * (d + 2) / 2 - m


@harness('C11', 'xy/valid-order-inverse', fuc=['prysm.polynomials.xy.xy_j_to_mn'])
def xy_forward():
    """(m,n) non-negative; index j lies in the block of total degree d = m+n; within a degree the x power
    descends with j; the spec inverse recovers j (hence injective); degree is non-decreasing in j."""
    j = Int('j', 1)
    m, n = xy(j)
    check('valid', And(m >= 0, n >= 0))
    d = m + n
    check('block', And(d * (d + 1) < 2 * j, 2 * j <= (d + 1) * (d + 2)))
    check('inverse', xy_inv(m, n) == j)


@harness('C11', 'xy/surjective', fuc=['prysm.polynomials.xy.xy_j_to_mn'])
def xy_backward():
    m, n = Int('m', 0), Int('n', 0)
    j = xy_inv(m, n)
    check('index-positive', j >= 1)
    hint(m + n, m + n + 1)
    m2, n2 = xy(floor(j) if MODE == 'symbolic' else int(j))
    check('roundtrip', And(m2 == m, n2 == n))


@harness('C11', 'xy/raises-below-one', fuc=['prysm.polynomials.xy.xy_j_to_mn'])
def xy_raises():
    j = Int('j', None, 0)
    check('raises', did_raise(lambda: call(XY + 'xy_j_to_mn', j), ValueError))


@lemma('C11', 'lemma/triangular-monotone')
def tri_mono():
    """0 <= a <= b  ->  a(a+1) <= b(b+1)   (used, instantiated at hint terms, by the XY loop invariant)"""
    a, b = Int('a', 0), Int('b', 0)
    assume(a <= b)
    e = Int('e', 0)
    assume(b == a + e)
    check('monotone', a * (a + 1) <= b * (b + 1))


# ------------------------------------------------------------------------------------ bounded stand-in for A1
@harness('C11', 'bounded/float-semantics-exhaustive', kind='bounded', seeds=1,
         fuc=['prysm.polynomials.zernike.noll_to_nm', 'prysm.polynomials.zernike.fringe_to_nm', 'prysm.polynomials.zernike.nm_to_fringe',
              'prysm.polynomials.zernike.ansi_j_to_nm', 'prysm.polynomials.zernike.nm_to_ansi_j', 'prysm.polynomials.xy.xy_j_to_mn'])
def float_exhaustive():
    """BOUNDED (not a proof): the real functions with IEEE doubles, every j <= 10^5 (quick) / 10^6 (thorough) plus
    the neighbours of perfect squares and triangular numbers up to 2^50: validity, inverses, injectivity, ordering.
    This is the stand-in for assumption A1 (np.sqrt/np.ceil exact) under which the unbounded proofs hold."""
    import os
    N = 100000 if os.environ.get('VERIF_TIER', 'quick') != 'thorough' else 1000000
    noll, f2nm, nm2f = get(Z + 'noll_to_nm'), get(Z + 'fringe_to_nm'), get(Z + 'nm_to_fringe')
    a2nm, nm2a, xyf = get(Z + 'ansi_j_to_nm'), get(Z + 'nm_to_ansi_j'), get(XY + 'xy_j_to_mn')

    def ok_nm(n, m):
        return n >= 0 and abs(m) <= n and (n - abs(m)) % 2 == 0
    probes = set(range(1, N + 1))
    t = 2
    while t < 2 ** 25:
        for base in (t * t, t * (t + 1) // 2):
            for dlt in (-1, 0, 1):
                probes.add(base + dlt)
        t = t * 3 // 2 + 1
    seen = {'noll': {}, 'fringe': {}, 'ansi': {}}
    bad = []
    prev_n = 0
    for j in sorted(probes):
        n, m = noll(j)
        if not ok_nm(n, m) or (m != 0 and (j % 2 == 0) != (m > 0)) or not (n * (n + 1) < 2 * j <= (n + 1) * (n + 2)):
            bad.append(('noll', j, n, m))
        if j <= N:
            if n < prev_n:
                bad.append(('noll-order', j, n, m))
            prev_n = n
            if seen['noll'].setdefault((n, m), j) != j:
                bad.append(('noll-injective', j, n, m))
        n, m = f2nm(j)
        if not ok_nm(n, m) or nm2f(n, m) != j:
            bad.append(('fringe', j, n, m))
        n, m = a2nm(j - 1)
        if not ok_nm(n, m) or nm2a(n, m) != j - 1 or 2 * (j - 1) != n * (n + 2) + m:
            bad.append(('ansi', j - 1, n, m))
    for j in range(1, min(N, 20000) + 1):       # xy_j_to_mn walks O(sqrt j) steps: smaller exhaustive range
        x, y = xyf(j)
        d = x + y
        if x < 0 or y < 0 or not (d * (d + 1) < 2 * j <= (d + 1) * (d + 2)) or (d + 1) * (d + 2) // 2 - x != j:
            bad.append(('xy', j, x, y))
    note('bounded: exhaustive j <= %d (xy <= %d) + %d boundary probes up to 2^50' % (N, min(N, 20000), len(probes) - N))
    check('no-bad-index', len(bad) == 0)
    if bad:
        print('BAD', bad[:10])
