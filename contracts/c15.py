"""C15 — image formation obeys the convolution theorem; the MTF is a valid MTF."""
from pvc.api import *


@harness('C15', 'bounded/convolution-and-mtf', kind='bounded',
         variants=['conv-algebra', 'conv-impulse', 'transfer-functions', 'transfer-function-callables', 'mtf-valid'],
         fuc=['prysm.convolution.conv', 'prysm.convolution.apply_transfer_functions', 'prysm.otf.transform_psf', 'prysm.otf.mtf_from_psf',
              'prysm.otf.ptf_from_psf', 'prysm.otf.otf_from_psf'])
def conv_mtf(which):
    """BOUNDED (the statements rest on the convolution theorem for scipy.fft, a library theorem): seeded real object/PSF pairs of
    every shape 1..9 per axis (odd/even, non-square), every impulse position, transfer-function lists of arrays and callables of
    (fx, fy, fr, ft), shifted and unshifted conventions, non-negative PSFs."""
    import numpy as np
    rng = np.random.default_rng(Int('seed', 0, 10 ** 6))
    cv = get('prysm.convolution')
    otf = get('prysm.otf')
    m, n = int(rng.integers(1, 10)), int(rng.integers(1, 10))
    o, o2, h = rng.standard_normal((m, n)), rng.standard_normal((m, n)), rng.random((m, n))
    tol = dict(rtol=1e-9, atol=1e-9)
    if which == 'conv-algebra':
        a, b = float(rng.standard_normal()), float(rng.standard_normal())
        check('linear-in-object', bool(np.allclose(cv.conv(a * o + b * o2, h), a * cv.conv(o, h) + b * cv.conv(o2, h), **tol)))
        check('commutative', bool(np.allclose(cv.conv(o, h), cv.conv(h, o), **tol)))
        check('energy-multiplies', bool(np.isclose(cv.conv(o, h).sum(), o.sum() * h.sum())))
    elif which == 'conv-impulse':
        d = np.zeros((m, n))
        d[m // 2, n // 2] = 1
        check('impulse-at-origin-is-identity', bool(np.allclose(cv.conv(o, d), o, **tol)))
        py, px = int(rng.integers(0, m)), int(rng.integers(0, n))
        d2 = np.zeros((m, n))
        d2[py, px] = 1
        want = np.roll(o, (py - m // 2, px - n // 2), axis=(0, 1))
        check('impulse-offset-translates', bool(np.allclose(cv.conv(o, d2), want, **tol)))
    elif which == 'transfer-functions':
        tfs = [rng.random((m, n)) for _ in range(int(rng.integers(1, 4)))]
        prod = np.ones((m, n))
        for t in tfs:
            prod = prod * t
        for shift in (True, False):
            a = cv.apply_transfer_functions(o, 1.0, tfs, shift=shift)
            b = cv.apply_transfer_functions(o, 1.0, [prod], shift=shift)
            check('list-equals-product-shift=%s' % shift, bool(np.allclose(a, b, **tol)))
            c = cv.apply_transfer_functions(o, 1.0, [np.ones((m, n))], shift=shift)
            check('all-ones-is-identity-shift=%s' % shift, bool(np.allclose(c, o, **tol)))
    elif which == 'transfer-function-callables':
        dx = float(rng.uniform(0.5, 2))
        seen = {}

        def tf_xy(fx, fy):
            seen['fx'], seen['fy'] = np.asarray(fx), np.asarray(fy)
            return np.ones((m, n))

        def tf_rt(fr, ft):
            seen['fr'], seen['ft'] = np.asarray(fr), np.asarray(ft)
            return np.ones((m, n))
        cv.apply_transfer_functions(o, dx, [tf_xy, tf_rt], shift=True)
        fx = (np.arange(n) - n // 2) / (n * dx)
        fy = (np.arange(m) - m // 2) / (m * dx)
        check('fx-is-axis-1-frequencies', bool(np.allclose(np.broadcast_to(seen['fx'], (m, n)), np.broadcast_to(fx[None, :], (m, n)))))
        check('fy-is-axis-0-frequencies', bool(np.allclose(np.broadcast_to(seen['fy'], (m, n)), np.broadcast_to(fy[:, None], (m, n)))))
        check('fr-is-hypot', bool(np.allclose(np.broadcast_to(seen['fr'], (m, n)), np.hypot(fx[None, :], fy[:, None]))))
        check('ft-is-arctan2(fy,fx)', bool(np.allclose(np.broadcast_to(seen['ft'], (m, n)), np.arctan2(fy[:, None], fx[None, :] * np.ones((m, 1))))))
    else:
        psf = rng.random((m, n)) + 1e-3
        dx = float(rng.uniform(0.5, 2))
        mtf, ptf, of = otf.mtf_from_psf(psf, dx), otf.ptf_from_psf(psf, dx), otf.otf_from_psf(psf, dx)
        cy, cx = m // 2, n // 2
        check('one-at-zero-frequency', bool(np.isclose(mtf.data[cy, cx], 1)))
        check('never-exceeds-one', bool((mtf.data <= 1 + 1e-12).all()))
        ok = True
        for k in range(-cy, m - cy):
            for l in range(-cx, n - cx):
                if 0 <= cy - k < m and 0 <= cx - l < n:
                    ok &= bool(np.isclose(mtf.data[cy + k, cx + l], mtf.data[cy - k, cx - l]))
        check('point-symmetric', ok)
        check('otf-modulus-is-mtf', bool(np.allclose(abs(of.data), mtf.data)))
        check('otf-phase-is-ptf', bool(np.allclose(np.exp(1j * ptf.data), of.data / np.maximum(abs(of.data), 1e-300), atol=1e-7)))
        check('frequency-spacing', bool(np.isclose(mtf.dx, 1000 / (m * dx))))
