"""C15 — image formation obeys the convolution theorem; the MTF is a valid MTF."""
from pvc.api import *


def _havoc_fft2(m, n):
    """symbolic run: fft2 returns an arbitrary complex array F (the library transform is not modelled); the argument it was given
    is recorded.  Returns (F, seen, restore)."""
    from pvc import symnp
    F = Array('F', (m, n), 'c')
    seen = {}
    old = symnp.fft.__dict__.get('fft2')

    def fake(a, *args, **kw):
        seen['arg'] = a
        return F
    symnp.fft.fft2 = fake

    def restore():
        if old is None:
            del symnp.fft.fft2
        else:
            symnp.fft.fft2 = old
    return F, seen, restore


@harness('C15', 'otf/dc-bin-at-origin-sample', variants=['mtf', 'otf', 'transform_psf'],
         fuc=['prysm.otf.transform_psf', 'prysm.otf.mtf_from_psf', 'prysm.otf.otf_from_psf'])
def otf_bins(which):
    """MODULAR on the library transform (F = fft2 of what transform_psf hands to fft2: arbitrary in the symbolic run, the real
    transform in the replay), for every shape of either parity: transform_psf stores DFT bin k at index k + n//2 on each axis, so
    the zero-frequency bin is at the origin sample (m//2, n//2); mtf_from_psf = |F[bin]| / |F[0,0]| and otf_from_psf = F[bin] /
    F[0,0] with that same bin map: both are exactly 1 at the origin sample whatever the PSF, and MTF = |OTF| sample by sample."""
    m, n = Int('m', 1), Int('n', 1)
    psf = Array('psf', (m, n))
    dx = Real('dx', pos=True)
    i, j = idx(m, 'i'), idx(n, 'j')
    fn = {'mtf': 'mtf_from_psf', 'otf': 'otf_from_psf', 'transform_psf': 'transform_psf'}[which]
    if MODE == 'symbolic':
        F, seen, restore = _havoc_fft2(m, n)
        try:
            out = call('prysm.otf.' + fn, psf, dx)
        finally:
            restore()
        assume(abs2(elem(F, 0, 0)) != 0)
    else:
        import numpy as np
        F = np.fft.fft2(np.fft.ifftshift(psf))
        assume(bool(abs(F[0, 0]) > 1e-6))
        out = call('prysm.otf.' + fn, psf, dx)
    bi, bj = (i - m // 2) % m, (j - n // 2) % n
    if which == 'transform_psf':
        data, df = out
        check('bin-k-at-index-k+n//2', And(shape_is(data, m, n), approx(elem(data, i, j), elem(F, bi, bj), 1e-9)))
        check('dc-bin-at-origin-sample', approx(elem(data, m // 2, n // 2), elem(F, 0, 0), 1e-9))
        return
    d = out.data
    check('shape', shape_is(d, m, n))
    if which == 'otf':
        check('normalised-spectrum', approx(elem(d, i, j), elem(F, bi, bj) / elem(F, 0, 0), 1e-7))
        check('one-at-the-origin-sample', approx(elem(d, m // 2, n // 2), 1, 1e-9))
    else:
        v = elem(d, i, j)
        check('modulus-of-the-normalised-spectrum', And(v >= 0, approx(v * v * abs2(elem(F, 0, 0)), abs2(elem(F, bi, bj)), 1e-7)))
        check('one-at-the-origin-sample', approx(elem(d, m // 2, n // 2), 1, 1e-9))


@harness('C15', 'apply_transfer_functions/spectrum-product', variants=[dict(shift=sh, K=k) for sh in (True, False) for k in (1, 2, 3)],
         fuc=['prysm.convolution.apply_transfer_functions'])
def atf_product(v):
    """MODULAR on the library transforms (fft2 returns an arbitrary complex F, ifft2 an arbitrary complex H; what each was
    handed is recorded), for every shape of either parity and K = 1..3 transfer-function arrays: the spectrum handed to the
    inverse transform is F times the PRODUCT of the list, bin for bin - in the shifted convention the transfer-function sample at
    the centred index k + n//2 multiplies DFT bin k, in the unshifted convention sample k multiplies bin k - so a list equals
    the single product transfer function and all-ones leaves the spectrum untouched; the object goes in with its origin sample
    n//2 rolled to index 0 (shifted convention) and the result comes back the same way round."""
    m, n = Int('m', 1), Int('n', 1)
    obj = Array('obj', (m, n))
    tfs = [Array('tf%d' % k, (m, n)) for k in range(v['K'])]
    dx = Real('dx', pos=True)
    i, j = idx(m, 'i'), idx(n, 'j')
    sh = v['shift']
    if MODE == 'symbolic':
        from pvc import symnp
        F, seen, restore = _havoc_fft2(m, n)
        Hh = Array('H', (m, n), 'c')
        old = symnp.fft.__dict__.get('ifft2')

        def fake_inv(a, *args, **kw):
            seen['inv'] = a
            return Hh
        symnp.fft.ifft2 = fake_inv
        try:
            out = call('prysm.convolution.apply_transfer_functions', obj, dx, tfs, shift=sh)
        finally:
            restore()
            if old is None:
                del symnp.fft.ifft2
            else:
                symnp.fft.ifft2 = old
        fwd_arg, inv_arg = seen['arg'], seen['inv']
    else:
        import numpy as np
        out = call('prysm.convolution.apply_transfer_functions', obj, dx, tfs, shift=sh)
        fwd_arg = np.fft.ifftshift(obj) if sh else obj
        F = np.fft.fft2(fwd_arg)
        prod = np.ones((int(m), int(n)))
        for t in tfs:
            prod = prod * (np.fft.ifftshift(t) if sh else t)
        inv_arg = F * prod
        Hh = np.fft.ifft2(inv_arg)
    ri, rj = ((i + m // 2) % m, (j + n // 2) % n) if sh else (i, j)
    check('object-origin-rolled-to-index-0' if sh else 'object-as-is', approx(elem(fwd_arg, i, j), elem(obj, ri, rj), 1e-9))
    want = elem(F, i, j)
    for t in tfs:
        want = want * elem(t, ri, rj)
    check('spectrum-times-product-of-the-list-bin-for-bin', approx(elem(inv_arg, i, j), want, 1e-7))
    check('shape', shape_is(out, m, n))
    if sh:
        check('result-origin-back-at-n//2', approx(elem(out, i, j), elem(Hh, (i - m // 2) % m, (j - n // 2) % n).real, 1e-7))
    else:
        # unshifted convention: nothing was rolled on the way in, so nothing may be rolled on the way out
        check('result-not-rolled(shift=False)', approx(elem(out, i, j), elem(Hh, i, j).real, 1e-7))


@harness('C15', 'bounded/convolution-and-mtf', kind='bounded',
         variants=['conv-algebra', 'conv-impulse', 'transfer-functions', 'transfer-function-callables', 'mtf-valid'],
         fuc=['prysm.convolution.conv', 'prysm.convolution.apply_transfer_functions', 'prysm.otf.transform_psf', 'prysm.otf.mtf_from_psf',
              'prysm.otf.ptf_from_psf', 'prysm.otf.otf_from_psf'])
def conv_mtf(which):
    """BOUNDED (the statements rest on the convolution theorem for scipy.fft, a library theorem): seeded real object/PSF pairs of
    every shape 1..9 per axis (odd/even, non-square), every impulse position, transfer-function lists of arrays and callables of
    (fx, fy, fr, ft), shifted and unshifted conventions, non-negative PSFs."""
    import numpy as np
    rng = np.random.default_rng(Int('seed', 0, 10 ** 6))
    cv = get('prysm.convolution')
    otf = get('prysm.otf')
    m, n = int(rng.integers(1, 10)), int(rng.integers(1, 10))
    if rng.random() < 0.3:
        # lengths that are awkward for an FFT (large prime factors) next to friendly ones: "for every array shape"
        big = [11, 13, 14, 17, 19, 22, 23, 26, 29, 31]
        m, n = (int(rng.choice(big)), n) if rng.random() < 0.5 else (m, int(rng.choice(big)))
        if rng.random() < 0.3:
            m, n = int(rng.choice(big)), int(rng.choice(big))
    o, o2, h = vary_layout(rng, rng.standard_normal((m, n))), rng.standard_normal((m, n)), vary_layout(rng, rng.random((m, n)))     # any memory layout
    tol = dict(rtol=1e-9, atol=1e-9)
    if which == 'conv-algebra':
        a, b = float(rng.standard_normal()), float(rng.standard_normal())
        check('linear-in-object', bool(np.allclose(cv.conv(a * o + b * o2, h), a * cv.conv(o, h) + b * cv.conv(o2, h), **tol)))
        check('commutative', bool(np.allclose(cv.conv(o, h), cv.conv(h, o), **tol)))
        check('energy-multiplies', bool(np.isclose(cv.conv(o, h).sum(), o.sum() * h.sum())))
        # objects held in integer or boolean containers (photon counts, masks) are the same objects
        oi = rng.integers(0, 50, (m, n))
        for cast in (np.int64, np.uint16, bool):
            oc = oi.astype(cast)
            check('integer-or-bool-object-%s' % np.dtype(cast).name, bool(np.allclose(cv.conv(oc, h), cv.conv(oc.astype(float), h), **tol)
                                                                     and np.allclose(cv.conv(oc, h), cv.conv(h, oc), **tol)))
    elif which == 'conv-impulse':
        d = np.zeros((m, n))
        d[m // 2, n // 2] = 1
        check('impulse-at-origin-is-identity', bool(np.allclose(cv.conv(o, d), o, **tol)))
        py, px = int(rng.integers(0, m)), int(rng.integers(0, n))
        d2 = np.zeros((m, n))
        d2[py, px] = 1
        want = np.roll(o, (py - m // 2, px - n // 2), axis=(0, 1))
        check('impulse-offset-translates', bool(np.allclose(cv.conv(o, d2), want, **tol)))
    elif which == 'transfer-functions':
        tfs = [rng.random((m, n)) for _ in range(int(rng.integers(1, 4)))]
        prod = np.ones((m, n))
        for t in tfs:
            prod = prod * t
        for shift in (True, False):
            a = cv.apply_transfer_functions(o, 1.0, tfs, shift=shift)
            b = cv.apply_transfer_functions(o, 1.0, [prod], shift=shift)
            check('list-equals-product-shift=%s' % shift, bool(np.allclose(a, b, **tol)))
            c = cv.apply_transfer_functions(o, 1.0, [np.ones((m, n))], shift=shift)
            check('all-ones-is-identity-shift=%s' % shift, bool(np.allclose(c, o, **tol)))
            # the empty list is the empty product, i.e. the all-ones transfer function: same result in the same convention
            e = cv.apply_transfer_functions(o, 1.0, [], shift=shift)
            check('empty-list-is-the-all-ones-list-shift=%s' % shift, bool(np.allclose(e, c, **tol)))
    elif which == 'transfer-function-callables':
        dx = float(rng.uniform(0.5, 2))
        seen = {}

        def tf_xy(fx, fy):
            seen['fx'], seen['fy'] = np.asarray(fx), np.asarray(fy)
            return np.ones((m, n))

        def tf_rt(fr, ft):
            seen['fr'], seen['ft'] = np.asarray(fr), np.asarray(ft)
            return np.ones((m, n))
        fx = (np.arange(n) - n // 2) / (n * dx)
        fy = (np.arange(m) - m // 2) / (m * dx)
        # the frequency grids may be left to the routine, or given as 1-D axes, or as the documented (M, N) arrays
        how = ['default', 'axes-1d', 'grids-2d'][int(rng.integers(0, 3))]
        kw = {} if how == 'default' else (dict(fx=fx, fy=fy) if how == 'axes-1d' else dict(zip(('fx', 'fy'), np.meshgrid(fx, fy))))
        out = cv.apply_transfer_functions(o, dx, [tf_xy, tf_rt], shift=True, **kw)
        check('callable-grids-broadcast-to-the-image', all(np.broadcast_shapes(np.shape(seen[k]), (m, n)) == (m, n) for k in ('fx', 'fy', 'fr', 'ft')))
        check('all-ones-callables-are-identity', bool(np.allclose(out, o, rtol=1e-9, atol=1e-9)))
        check('fx-is-axis-1-frequencies', bool(np.allclose(np.broadcast_to(seen['fx'], (m, n)), np.broadcast_to(fx[None, :], (m, n)))))
        check('fy-is-axis-0-frequencies', bool(np.allclose(np.broadcast_to(seen['fy'], (m, n)), np.broadcast_to(fy[:, None], (m, n)))))
        check('fr-is-hypot', bool(np.allclose(np.broadcast_to(seen['fr'], (m, n)), np.hypot(fx[None, :], fy[:, None]))))
        # complex-valued callables (a whole-sample phase ramp translates the object; a list equals its product)
        ky, kx = int(rng.integers(-2, 3)), int(rng.integers(-2, 3))
        ramp = lambda fx, fy: np.exp(-2j * np.pi * (np.asarray(fx) * kx * dx + np.asarray(fy) * ky * dx)) * np.ones((m, n))
        damp = lambda fr: (1 + 0.5j * np.asarray(fr) * dx) * np.ones((m, n))
        got_r = cv.apply_transfer_functions(o, dx, [ramp], shift=True, **kw)
        check('complex-callable-phase-ramp-translates', bool(np.allclose(got_r, np.roll(o, (ky, kx), axis=(0, 1)), atol=1e-9)))
        both = cv.apply_transfer_functions(o, dx, [ramp, damp], shift=True, **kw)
        fxg, fyg = np.broadcast_to(fx[None, :], (m, n)), np.broadcast_to(fy[:, None], (m, n))
        prod = ramp(fxg, fyg) * damp(np.hypot(fxg, fyg))
        check('complex-callables-list-equals-product', bool(np.allclose(both, cv.apply_transfer_functions(o, dx, [prod], shift=True), atol=1e-9)))
        check('ft-is-arctan2(fy,fx)', bool(np.allclose(np.broadcast_to(seen['ft'], (m, n)), np.arctan2(fy[:, None], fx[None, :] * np.ones((m, 1))))))
    else:
        psf = rng.random((m, n)) + 1e-3
        dx = float(rng.uniform(0.5, 2))
        mtf, ptf, of = otf.mtf_from_psf(psf, dx), otf.ptf_from_psf(psf, dx), otf.otf_from_psf(psf, dx)
        cy, cx = m // 2, n // 2
        check('one-at-zero-frequency', bool(np.isclose(mtf.data[cy, cx], 1)))
        check('never-exceeds-one', bool((mtf.data <= 1 + 1e-12).all()))
        ok = True
        for k in range(-cy, m - cy):
            for l in range(-cx, n - cx):
                if 0 <= cy - k < m and 0 <= cx - l < n:
                    ok &= bool(np.isclose(mtf.data[cy + k, cx + l], mtf.data[cy - k, cx - l]))
        check('point-symmetric', ok)
        check('otf-modulus-is-mtf', bool(np.allclose(abs(of.data), mtf.data)))
        check('otf-phase-is-ptf', bool(np.allclose(np.exp(1j * ptf.data), of.data / np.maximum(abs(of.data), 1e-300), atol=1e-7)))
        check('frequency-spacing', bool(np.isclose(mtf.dx, 1000 / (m * dx))))
        # the MTF does not depend on the units of the PSF: very faint and very bright PSFs (still far inside the float range)
        for ex in (-200, -158, -120, 120, 160):
            ms = otf.mtf_from_psf(psf * 10.0 ** ex, dx)
            check('mtf-is-scale-invariant-at-1e%d' % ex, bool(np.isfinite(ms.data).all() and np.allclose(ms.data, mtf.data, rtol=1e-9, atol=1e-12)))
