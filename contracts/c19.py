"""C19 — ray tracing obeys Snell's law and keeps rays on surfaces."""
from pvc.api import *

SM = 'prysm.x.raytracing.spencer_and_murty.'
SF = 'prysm.x.raytracing.surfaces.'


def dot(a, b):
    return a[0] * b[0] + a[1] * b[1] + a[2] * b[2]


def cross(a, b):
    return (a[1] * b[2] - a[2] * b[1], a[2] * b[0] - a[0] * b[2], a[0] * b[1] - a[1] * b[0])


def row(A, k):
    return tuple(elem(A, k, c) for c in range(3))


def vec_zero(v, tol=None):
    return And(*[approx(c, 0, tol) for c in v])


@harness('C19', 'refract/unit-and-snell', fuc=['prysm.x.raytracing.spencer_and_murty.refract', 'prysm.x.raytracing.spencer_and_murty._multi_dot'])
def refract_snell():
    """for a unit incident direction S and a surface normal r of ANY length (as Surface.sag_normal returns it)
    below the critical angle, heading with OR against the normal (a ray that meets the surface after a mirror travels toward -z
    while the normal points to +z): |S'| = 1, S' - mu S is parallel to r (plane of incidence), n|S x r^| = n'|S' x r^|
    (Snell, squared form) and S' stays on the side of the surface S was heading to."""
    N = Int('N', 1)
    S, R = Array('S', (N, 3)), Array('R', (N, 3))
    n, npr = Real('n', 1), Real('nprime', 1)
    k = idx(N, 'k')
    if MODE != 'symbolic':
        S[:] = S / ((S * S).sum(axis=1) ** 0.5)[:, None]          # concrete runs: unit direction cosines, either sense
    s, r = row(S, k), row(R, k)
    rr = dot(r, r)
    assume(approx(dot(s, s), 1, 1e-12))
    assume(rr > 0)
    mu = n / npr
    w = sqrt(rr)
    rhat = tuple(c / w for c in r)
    cosI = rhat[0] * s[0] + rhat[1] * s[1] + rhat[2] * s[2]      # cosine of the incidence angle (unit normal)
    assume(cosI != 0)                                              # not grazing
    assume(1 - mu * mu * (1 - cosI * cosI) > 0)                   # below the critical angle
    out = call(SM + 'refract', n, npr, S, R)
    check('shape', shape_is(out, N, 3))
    sp = row(out, k)
    check('unit-length', approx(dot(sp, sp), 1, 1e-9))
    d = tuple(sp[c] - mu * s[c] for c in range(3))
    check('plane-of-incidence', vec_zero(cross(d, r), 1e-9))
    cs, csp = cross(s, r), cross(sp, r)
    check('snell', approx(n * n * dot(cs, cs), npr * npr * dot(csp, csp), 1e-9))
    q = sqrt(1 - mu * mu * (1 - cosI * cosI))
    want = q * w if cosI > 0 else -q * w          # (forks the path on the sense of the ray)
    check('normal-component', approx(dot(sp, r), want, 1e-9))      # = +-cos(I') |r|, the sign of cos(I)
    check('same-side', dot(sp, r) * cosI > 0)


@harness('C19', 'reflect/mirror', fuc=['prysm.x.raytracing.spencer_and_murty.reflect'])
def reflect_mirror():
    """|S'| = |S|, S'.r = -S.r, S' - S parallel to r, for a normal of any non-zero length."""
    N = Int('N', 1)
    S, R = Array('S', (N, 3)), Array('R', (N, 3))
    k = idx(N, 'k')
    s, r = row(S, k), row(R, k)
    assume(dot(r, r) > 0)
    out = call(SM + 'reflect', S, R)
    check('shape', shape_is(out, N, 3))
    sp = row(out, k)
    check('length', approx(dot(sp, sp), dot(s, s)))
    check('normal-component-flips', approx(dot(sp, r), -dot(s, r)))
    check('tangential-kept', vec_zero(cross(tuple(sp[c] - s[c] for c in range(3)), r), 1e-9))


@harness('C19', 'make_rotation_matrix/orthogonal', fuc=['prysm.coordinates.make_rotation_matrix'])
def rotmat():
    """R^T R = I and det R = +1 for all three Euler angles."""
    a, b, c = Real('az'), Real('ay'), Real('ax')
    R = call('prysm.coordinates.make_rotation_matrix', (a, b, c), radians=True)
    check('shape', shape_is(R, 3, 3))
    rows = [row(R, i) for i in range(3)]
    for i in range(3):
        for j in range(i, 3):
            check('orthonormal-%d%d' % (i, j), approx(dot(rows[i], rows[j]), 1 if i == j else 0))
    check('det', approx(dot(rows[0], cross(rows[1], rows[2])), 1))


@harness('C19', 'transforms/rigid-motion', variants=['rotated', 'translated-only'],
         fuc=['prysm.x.raytracing.spencer_and_murty.transform_to_local_coords', 'prysm.x.raytracing.spencer_and_murty.transform_to_global_coords'])
def rigid(kind):
    """global(local(X)) = X on points and directions (R one way, R.T back, as raytrace passes them), lengths kept."""
    N = Int('N', 1)
    X, S = Array('X', (N, 3)), Array('S', (N, 3))
    P = Array('P', (3,))
    k = idx(N, 'k')
    if kind == 'rotated':
        R = call('prysm.coordinates.make_rotation_matrix', (Real('az'), Real('ay'), Real('ax')), radians=True)
        Rt = R.T
    else:
        R = Rt = None
    XL, SL = call(SM + 'transform_to_local_coords', X, P, S, R)
    XG, SG = call(SM + 'transform_to_global_coords', XL, P, SL, Rt)
    check('points-roundtrip', And(*[approx(elem(XG, k, c), elem(X, k, c)) for c in range(3)]))
    check('directions-roundtrip', And(*[approx(elem(SG, k, c), elem(S, k, c)) for c in range(3)]))
    sl, s = row(SL, k), row(S, k)
    check('direction-length-kept', approx(dot(sl, sl), dot(s, s)))
    d1 = tuple(elem(XL, k, c) for c in range(3))
    d0 = tuple(elem(X, k, c) - elem(P, c) for c in range(3))
    check('distance-to-vertex-kept', approx(dot(d1, d1), dot(d0, d0)))


@harness('C19', 'Surface.conic/sag-and-normal', variants=['conic', 'sphere'],
         fuc=['prysm.x.raytracing.surfaces.Surface.conic', 'prysm.x.raytracing.surfaces.Surface.sphere', 'prysm.x.raytracing.surfaces.Surface.sag_normal',
              'prysm.x.raytracing.surfaces.conic_sag', 'prysm.x.raytracing.surfaces.conic_sag_der',
              'prysm.x.raytracing.surfaces.surface_normal_from_cylindrical_derivatives', 'prysm.coordinates.cart_to_polar'])
def conic_normal(kind):
    """z lies on the conic  c rho^2 - 2 z + (1+k) c z^2 = 0 (the branch through the vertex) and the returned normal
    is (-dz/dx, -dz/dy, 1) of that surface (implicit differentiation), at EVERY point of the clear aperture --
    including the vertex x = y = 0 (no 0/0, no inf*0): an axial ray is traced like any other."""
    N = Int('N', 1)
    x, y = Array('x', (N,)), Array('y', (N,))
    c = Real('c')
    k = Real('kappa') if kind == 'conic' else 0
    i = idx(N, 'i')
    xi, yi = elem(x, i), elem(y, i)
    rho2 = xi * xi + yi * yi
    assume(1 - (1 + k) * c * c * rho2 > 0)        # inside the clear aperture of the conic
    Srf = get(SF + 'Surface')
    srf = Srf.conic(c, k, 'refl', 0.0) if kind == 'conic' else Srf.sphere(c, 'refl', 0.0, None)
    z, nrm = srf.sag_normal(x, y)
    check('shape', And(shape_is(z, N), shape_is(nrm, N, 3)))
    zi = elem(z, i)
    check('on-conic', approx(c * rho2 - 2 * zi + (1 + k) * c * zi * zi, 0, 1e-9))
    check('vertex-branch', (1 - (1 + k) * c * zi) > 0)
    den = 1 - (1 + k) * c * zi
    check('normal-x', approx(-elem(nrm, i, 0) * den, c * xi, 1e-9))
    check('normal-y', approx(-elem(nrm, i, 1) * den, c * yi, 1e-9))
    check('normal-z', approx(elem(nrm, i, 2), 1))


@harness('C19', 'Surface.plane/sag-and-normal', fuc=['prysm.x.raytracing.surfaces.Surface.plane', 'prysm.x.raytracing.surfaces.Surface.sag_normal'])
def plane_normal():
    N = Int('N', 1)
    x, y = Array('x', (N,)), Array('y', (N,))
    i = idx(N, 'i')
    Srf = get(SF + 'Surface')
    z, nrm = Srf.plane('refl', 0.0).sag_normal(x, y)
    check('shape', And(shape_is(z, N), shape_is(nrm, N, 3)))
    check('flat', approx(elem(z, i), 0))
    check('normal', And(approx(elem(nrm, i, 0), 0), approx(elem(nrm, i, 1), 0), approx(elem(nrm, i, 2), 1)))


@harness('C19', 'Surface.off_axis_conic/sag-and-normal', variants=['dx', 'dy'],
         fuc=['prysm.x.raytracing.surfaces.Surface.off_axis_conic', 'prysm.x.raytracing.surfaces.off_axis_conic_sag',
              'prysm.coordinates.cart_to_polar'])
def oac_normal(which):
    """an off-axis conic is the parent conic evaluated at (x+dx, y+dy): z on the parent's quadric and the normal is
    the parent's gradient there, at every point of the segment including its own origin r = 0 (where the chief ray lands)."""
    N = Int('N', 1)
    x, y = Array('x', (N,)), Array('y', (N,))
    c, k, s = Real('c'), Real('kappa'), Real('s', nonzero=True)
    i = idx(N, 'i')
    xi, yi = elem(x, i), elem(y, i)
    X, Y = (xi + s, yi) if which == 'dx' else (xi, yi + s)
    A = X * X + Y * Y
    assume(1 - (1 + k) * c * c * A > 0)
    Srf = get(SF + 'Surface')
    srf = Srf.off_axis_conic(c, k, 'refl', 0.0, dy=0, dx=s) if which == 'dx' else Srf.off_axis_conic(c, k, 'refl', 0.0, dy=s)
    # the polar form used by the code equals the shifted Cartesian form (hypot / arctan2 contract)
    rr, tt = call('prysm.coordinates.cart_to_polar', x, y, vec_to_grid=False)
    ri, ti = elem(rr, i), elem(tt, i)
    if MODE == 'symbolic':
        agg = ri * ri + 2 * s * ri * (cos(ti) if which == 'dx' else sin(ti)) + s * s
    else:
        import math
        agg = ri * ri + 2 * s * ri * (math.cos(ti) if which == 'dx' else math.sin(ti)) + s * s
    check('aggregate-term', approx(agg, A, 1e-9))
    assume(1 - (1 + k) * c * c * agg > 0)
    z, nrm = srf.sag_normal(x, y)
    zi = elem(z, i)
    check('on-parent-conic', approx(c * A - 2 * zi + (1 + k) * c * zi * zi, 0, 1e-9))
    den = 1 - (1 + k) * c * zi
    phi = sqrt(1 - (1 + k) * (c * c) * agg)
    check('den-is-phi', approx(den, phi, 1e-9))
    check('vertex-branch', den > 0)
    # the parent's gradient at (X, Y):  grad z = c (X, Y) / sqrt(1 - (1+k) c^2 (X^2 + Y^2))
    phiA = sqrt(1 - (1 + k) * (c * c) * A)
    check('normal-x', approx(-elem(nrm, i, 0) * phiA, c * X, 1e-7))
    check('normal-y', approx(-elem(nrm, i, 1) * phiA, c * Y, 1e-7))
    check('normal-z', approx(elem(nrm, i, 2), 1, 1e-12))


@harness('C19', 'bounded/raytrace-on-surface-and-snell', kind='bounded',
         variants=['conic-refract', 'conic-reflect', 'plane-refract', 'tilted-sphere-refract', 'two-surface', 'mixed-frames', 'q-type-surface'],
         fuc=['prysm.x.raytracing.spencer_and_murty.raytrace', 'prysm.x.raytracing.spencer_and_murty.intersect',
              'prysm.x.raytracing.spencer_and_murty.newton_raphson_solve_s'])
def bounded_raytrace(kind):
    """BOUNDED (not a proof): full raytrace through the Newton-Raphson intersection (masked iteration, outside the
    symbolic subset) on seeded ray fans incl. the axial ray: traced point lies on the surface, outgoing direction
    cosines are unit, Snell / mirror law hold about the true normal, nothing is NaN."""
    import numpy as np
    rng = np.random.default_rng(Int('seed', 0, 10 ** 6))
    Srf = get(SF + 'Surface')
    raytrace = get(SM + 'raytrace')
    c = float(rng.uniform(-0.02, 0.02))
    kap = float(rng.uniform(-1.5, 0.5))
    nglass = float(rng.uniform(1.3, 1.9))
    nfun = lambda wvl: nglass
    tilt = None
    if kind == 'conic-refract':
        surfs = [Srf.conic(c, kap, 'refr', 10.0, n=nfun)]
    elif kind == 'conic-reflect':
        surfs = [Srf.conic(c, kap, 'refl', 10.0)]
    elif kind == 'plane-refract':
        surfs = [Srf.plane('refr', 5.0, n=nfun)]
    elif kind == 'tilted-sphere-refract':
        tilt = (0.0, float(rng.uniform(-5, 5)), float(rng.uniform(-5, 5)))
        surfs = [Srf.sphere(c, 'refr', [0.5, -0.3, 10.0], nfun, R=tilt)]
    elif kind == 'q-type-surface':
        # a 2D-Q freeform on a (possibly off-axis) conic base, assembled the way the library's own tests do: Q2d_and_der for sag and
        # polar slopes, surface_normal_from_cylindrical_derivatives for the Cartesian ones
        Q2d, cyl = get(SF + 'Q2d_and_der'), get(SF + 'surface_normal_from_cylindrical_derivatives')
        c2p = get('prysm.coordinates.cart_to_polar')
        cm0 = list(rng.standard_normal(int(rng.integers(1, 3))) * 1e-3)
        ams = [list(rng.standard_normal(2) * 1e-3) for _ in range(int(rng.integers(0, 3)))]
        bms = [list(rng.standard_normal(2) * 1e-3) for _ in ams]
        off = {} if rng.random() < 0.4 else (dict(dx=float(rng.uniform(5, 20))) if rng.random() < 0.5 else dict(dy=float(rng.uniform(5, 20))))
        kq = float(rng.choice([-1.0, 0.0, kap]))

        def FFp(x, y):
            x2, y2 = np.atleast_2d(x), np.atleast_2d(y)          # 2-D point sets (1-D x, y would be read as grid axes)
            z, zr, zt = Q2d(cm0, ams, bms, x2, y2, 10.0, c, kq, **off)
            r, t = c2p(x2, y2)
            fx, fy = cyl(zr, zt, r, t)
            return z.reshape(np.shape(x)), fx.reshape(np.shape(x)), fy.reshape(np.shape(x))
        surfs = [Srf(typ='refl' if rng.random() < 0.5 else 'refr', P=12.0, n=nfun, FFp=FFp)]
        tilt = 'no-axial-ray'
    elif kind == 'mixed-frames':
        # a prescription that mixes tilted / decentred surfaces with plain ones in every order (tilted window ahead of a lens and a
        # mirror, a tilted element in the middle, ...): each surface's own frame, and only its own, applies at that surface
        def frame():
            return (float(rng.uniform(-4, 4)), float(rng.uniform(-4, 4)), float(rng.uniform(-4, 4))) if rng.random() < 0.5 else None
        surfs = [Srf.plane('refr', [0.0, 0.0, 5.0], n=nfun, R=frame()),
                 Srf.conic(c, kap, 'refr', [0.2, -0.1, 10.0], n=lambda w: 1.0, R=frame()),
                 Srf.sphere(-c, 'refl', [0.0, 0.0, 16.0], None, R=frame())]
    else:
        surfs = [Srf.conic(c, kap, 'refr', 10.0, n=nfun), Srf.sphere(-c, 'refr', 14.0, lambda w: 1.0)]
    nr = 9
    P = np.zeros((nr, 3))
    P[1:, 0] = rng.uniform(-4, 4, nr - 1)
    P[1:, 1] = rng.uniform(-4, 4, nr - 1)
    S = np.zeros((nr, 3))
    S[:, 2] = 1.0
    S[2:, 0] = rng.uniform(-0.1, 0.1, nr - 2)
    S[2:, 1] = rng.uniform(-0.1, 0.1, nr - 2)
    S /= np.sqrt((S * S).sum(axis=1))[:, None]
    P, S = vary_layout(rng, P), vary_layout(rng, S)      # ray bundles in any memory layout
    if tilt is not None:
        P[0] = 0.0     # axial ray of the untilted frame is just another skew ray here
    if tilt == 'no-axial-ray':
        P[0, :2] = (0.7, -0.4)     # the polar-to-Cartesian conversion of a user-assembled surface is singular at r = 0 (documented)
    if rng.random() < 0.25:
        # a collimated launch written the way the docstring does, S = [0, 0, 1] as integers
        S = np.zeros((nr, 3), dtype=int)
        S[:, 2] = 1
    Ph, Sh = raytrace(surfs, P, S, 0.6328, n_ambient=1.0)
    check('no-nan', bool(np.isfinite(Ph).all() and np.isfinite(Sh).all()))
    check('unit-direction-cosines', bool(np.allclose((Sh * Sh).sum(axis=-1), 1.0, atol=1e-9)))
    lcl = get(SM + 'transform_to_local_coords')
    nprev = 1.0
    for j, srf in enumerate(surfs):
        Pl, Sin = lcl(Ph[j + 1], srf.P, Sh[j], srf.R)
        _, Sout = lcl(Ph[j + 1], srf.P, Sh[j + 1], srf.R)
        z, nrm = srf.sag_normal(Pl[:, 0], Pl[:, 1])
        check('on-surface-%d' % j, bool(np.allclose(Pl[:, 2], z, atol=1e-8)))
        # "the true surface normal": the reported normal is (-dz/dx, -dz/dy, 1) of the reported sag (central differences)
        hh = 1e-5
        gx = (srf.sag_normal(Pl[:, 0] + hh, Pl[:, 1])[0] - srf.sag_normal(Pl[:, 0] - hh, Pl[:, 1])[0]) / (2 * hh)
        gy = (srf.sag_normal(Pl[:, 0], Pl[:, 1] + hh)[0] - srf.sag_normal(Pl[:, 0], Pl[:, 1] - hh)[0]) / (2 * hh)
        check('normal-is-the-gradient-of-the-sag-%d' % j, bool(np.allclose(-nrm[:, 0], gx, rtol=1e-5, atol=1e-7) and np.allclose(-nrm[:, 1], gy, rtol=1e-5, atol=1e-7)
                                                               and np.allclose(nrm[:, 2], 1)))
        nh = nrm / np.sqrt((nrm * nrm).sum(axis=1))[:, None]
        if srf.typ == -1:
            check('mirror-%d' % j, bool(np.allclose((Sout * nh).sum(1), -(Sin * nh).sum(1), atol=1e-9)
                                        and np.allclose(np.cross(Sout - Sin, nh), 0, atol=1e-9)))
        else:
            nnext = srf.n(0.6328)
            si = np.linalg.norm(np.cross(Sin, nh), axis=1)
            so = np.linalg.norm(np.cross(Sout, nh), axis=1)
            check('snell-%d' % j, bool(np.allclose(nprev * si, nnext * so, atol=1e-9)))
            check('plane-of-incidence-%d' % j, bool(np.allclose(np.einsum('ij,ij->i', np.cross(Sin, nh), Sout), 0, atol=1e-9)))
            nprev = nnext
