"""Spec functions for the polynomial families (C07-C10), transcribed from DLMF 18.9 / Abramowitz & Stegun 22.7 /
Mason & Handscomb (Chebyshev 3rd, 4th kind) -- NOT from the code -- and generic loop invariants for the
three-term-recurrence loops."""
from pvc.api import *

# ------------------------------------------------------------------------------------------- definitions


def jacobi_abc(k, a, b):
    """DLMF 18.9.2 coefficients of  P_{k+1} = (A_k x + B_k) P_k - C_k P_{k-1}"""
    A = (2 * k + a + b + 1) * (2 * k + a + b + 2) / (2 * (k + 1) * (k + a + b + 1))
    B = (a * a - b * b) * (2 * k + a + b + 1) / (2 * (k + 1) * (k + a + b + 1) * (2 * k + a + b))
    C = (k + a) * (k + b) * (2 * k + a + b + 2) / ((k + 1) * (k + a + b + 1) * (2 * k + a + b))
    return A, B, C


def _jac_rec(F, n, a, b, x):
    A, B, C = jacobi_abc(n - 1, a, b)
    return (A * x + B) * F.raw(n - 1, a, b, x) - C * F.raw(n - 2, a, b, x)


JAC = SpecFn('jacobi', 3, [
    (lambda n: n == 0, lambda F, n, a, b, x: 1),
    (lambda n: n == 1, lambda F, n, a, b, x: (a - b) / 2 + (a + b + 2) * x / 2),
    (lambda n: n >= 2, _jac_rec),
])

HE = SpecFn('hermite_He', 1, [
    (lambda n: n == 0, lambda F, n, x: 1),
    (lambda n: n == 1, lambda F, n, x: x),
    (lambda n: n >= 2, lambda F, n, x: x * F.raw(n - 1, x) - (n - 1) * F.raw(n - 2, x)),
])

HH = SpecFn('hermite_H', 1, [
    (lambda n: n == 0, lambda F, n, x: 1),
    (lambda n: n == 1, lambda F, n, x: 2 * x),
    (lambda n: n >= 2, lambda F, n, x: 2 * x * F.raw(n - 1, x) - 2 * (n - 1) * F.raw(n - 2, x)),
])

LAG = SpecFn('laguerre', 2, [
    (lambda n: n == 0, lambda F, n, al, x: 1),
    (lambda n: n == 1, lambda F, n, al, x: 1 + al - x),
    (lambda n: n >= 2, lambda F, n, al, x: ((2 * n - 1 + al - x) * F.raw(n - 1, al, x) - (n - 1 + al) * F.raw(n - 2, al, x)) / n),
])

DICK1 = SpecFn('dickson1', 2, [
    (lambda n: n == 0, lambda F, n, al, x: 2),
    (lambda n: n == 1, lambda F, n, al, x: x),
    (lambda n: n >= 2, lambda F, n, al, x: x * F.raw(n - 1, al, x) - al * F.raw(n - 2, al, x)),
])

DICK2 = SpecFn('dickson2', 2, [
    (lambda n: n == 0, lambda F, n, al, x: 1),
    (lambda n: n == 1, lambda F, n, al, x: x),
    (lambda n: n >= 2, lambda F, n, al, x: x * F.raw(n - 1, al, x) - al * F.raw(n - 2, al, x)),
])


def _cheb(name, first):
    return SpecFn(name, 1, [
        (lambda n: n == 0, lambda F, n, x: 1),
        (lambda n: n == 1, lambda F, n, x: first(x)),
        (lambda n: n >= 2, lambda F, n, x: 2 * x * F.raw(n - 1, x) - F.raw(n - 2, x)),
    ])


CHEB_T = _cheb('cheby_T', lambda x: x)
CHEB_U = _cheb('cheby_U', lambda x: 2 * x)
CHEB_V = _cheb('cheby_V', lambda x: 2 * x - 1)
CHEB_W = _cheb('cheby_W', lambda x: 2 * x + 1)


# ------------------------------------------------------------------------------------------- helpers
def spec_over(F, n, params, x):
    """F(n, *params, x) lifted elementwise over a coordinate array (or scalar) x"""
    if isarray(x):
        if MODE == 'symbolic':
            from pvc.symarr import SArr
            return SArr(x.shape, lambda ix: F.at(n, *params, x.at(*ix)), x.dtype)
        import numpy as np
        return np.vectorize(lambda v: F.at(n, *params, v))(x)
    return F.at(n, *params, x)


def same(val, ref, x, tag):
    """checkable equality of a computed value with a reference, both scalar or both arrays over x's shape"""
    if isarray(val) and len(val.shape) == 0:
        val = val.item() if MODE == 'symbolic' else float(val)
    if isarray(ref) and len(ref.shape) == 0:
        ref = ref.item() if MODE == 'symbolic' else float(ref)
    if isarray(ref):
        ix = tuple(skolem(d, 'e%d' % k) for k, d in enumerate(x.shape))
        if not isarray(val):
            return approx(val, elem(ref, *ix), 1e-7)          # a python scalar carried where an array is expected broadcasts
        return And(shape_is(val, *x.shape), approx(elem(val, *ix), elem(ref, *ix), 1e-7))
    if isarray(val):
        return False
    return approx(val, ref, 1e-7)


class Rec3(Invariant):
    """loop `for i in range(lo, n+1)` carrying (cur, prev) = (F(i-1), F(i-2)); other modified names are dead at the
    loop head and havocked."""
    def __init__(self, F, params, xname, cur, prev, dead=(), shift=0, also_cur=()):
        self.F, self.params, self.xname, self.cur, self.prev, self.dead, self.shift = F, params, xname, cur, prev, dead, shift
        self.also_cur = also_cur      # names that equal `cur` once at least one iteration has run (unbound before)

    def _vals(self, env, i):
        ps = self.params(env)
        x = env[self.xname]
        return spec_over(self.F, i - 1 + self.shift, ps, x), spec_over(self.F, i - 2 + self.shift, ps, x), x

    def state(self, env, i):
        c, p, x = self._vals(env, i)
        st = {self.cur: c, self.prev: p}
        for d in self.dead:
            st[d] = env.get(d)      # dead at the loop head (re-assigned before use in the body)
        for d in self.also_cur:
            st[d] = c
        return st

    def holds(self, env, i):
        c, p, x = self._vals(env, i)
        yield 'current', same(env[self.cur], c, x, 'cur')
        yield 'previous', same(env[self.prev], p, x, 'prev')
        for d in self.also_cur:
            if d in env:
                yield 'alias-' + d, same(env[d], c, x, d)
