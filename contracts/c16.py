"""C16 — sensor model: DN stay in range; binning and mosaicking conserve signal."""
from pvc.api import *

DET = 'prysm.detector.'
BAY = 'prysm.bayer.'


def _detector(prnu=None, dcnu=None):
    D = get(DET + 'Detector')
    bits = Int('bits', 1, 32)
    gain = Real('gain', pos=True)
    fwc = Real('fwc', pos=True)
    bias = Real('bias')
    dark = Real('dark', 0)
    rn = Real('rn', 0)
    t = Real('texp', pos=True)
    return D(dark, rn, bias, fwc, gain, bits, t, prnu=prnu, dcnu=dcnu), dict(bits=bits, gain=gain, fwc=fwc, bias=bias,
                                                                           dark=dark, t=t)


def _adc(v, p):
    """the documented transfer curve: clip to full well, scale by gain, clip to [0, 2^bits-1], truncate"""
    e = smin(v, p['fwc'])
    dn = e / p['gain']
    top = 2 ** p['bits'] - 1
    dn = smax(smin(dn, top), 0)
    return floor(dn)


@harness('C16', 'expose/range-and-shape', variants=[dict(frames=f, nu=n) for f in (1, 2) for n in (False, True)],
         fuc=['prysm.detector.Detector.__init__', 'prysm.detector.Detector.expose'])
def expose_range(v):
    """every DN is an integer in [0, 2^bits - 1] for arbitrary shot/read noise draws; documented shape."""
    h, w = Int('h', 1), Int('w', 1)
    img = Array('img', (h, w), lo=0)
    i, j = idx(h, 'i'), idx(w, 'j')
    prnu = dcnu = None
    if v['nu']:
        prnu = Array('prnu', (h * w,))
        dcnu = Array('dcnu', (h, w))
    det, p = _detector(prnu, dcnu)
    frames = v['frames']
    with noise('havoc') as nz:
        out = det.expose(img, frames=frames)
    if frames == 1:
        check('shape', shape_is(out, h, w))
        dn = elem(out, i, j)
    else:
        check('shape', shape_is(out, frames, h, w))
        f = idx(frames, 'f')
        dn = elem(out, f, i, j)
    check('dtype-unsigned', kind_of(out)[0] == 'u')
    check('lower', dn >= 0)
    check('upper', dn <= 2 ** p['bits'] - 1)


@harness('C16', 'expose/monotone', fuc=['prysm.detector.Detector.expose'])
def expose_monotone():
    """within one exposure a pixel whose ADC input is not smaller never reads a smaller DN
    (brighter never reads darker, including far above full well / ADC range)."""
    h, w = Int('h', 1), Int('w', 1)
    img = Array('img', (h, w))
    det, p = _detector()
    with noise('havoc') as nz:
        out = det.expose(img, frames=1)
    i, j = idx(h, 'i'), idx(w, 'j')
    k, l = idx(h, 'k'), idx(w, 'l')
    a1 = elem(nz.shot, 0, i * w + j) + elem(nz.read, 0, i * w + j)
    a2 = elem(nz.shot, 0, k * w + l) + elem(nz.read, 0, k * w + l)
    check('monotone', Implies(a1 <= a2, elem(out, i, j) <= elem(out, k, l)))


@harness('C16', 'expose/noise-free', variants=[1, 3], fuc=['prysm.detector.Detector.expose'])
def expose_noise_free(frames):
    """noise switched off: DN = trunc(clip(min(signal*t + dark*t + bias, fwc)/gain, 0, 2^bits-1))."""
    h, w = Int('h', 1), Int('w', 1)
    img = Array('img', (h, w), lo=0)
    i, j = idx(h, 'i'), idx(w, 'j')
    det, p = _detector()
    with noise('free'):
        out = det.expose(img, frames=frames)
    want = _adc(elem(img, i, j) * p['t'] + p['dark'] * p['t'] + p['bias'], p)
    if frames == 1:
        check('transfer-curve', elem(out, i, j) == want)
    else:
        f = idx(frames, 'f')
        check('transfer-curve', elem(out, f, i, j) == want)
    check('saturates-at-top', Implies(smin(elem(img, i, j) * p['t'] + p['dark'] * p['t'] + p['bias'], p['fwc']) / p['gain'] >= 2 ** p['bits'] - 1,
                                      (elem(out, i, j) if frames == 1 else elem(out, 0, i, j)) == 2 ** p['bits'] - 1))


def _binshape(rank, per_axis):
    dims, facs = [], []
    for k in range(rank):
        dims.append(Int('n%d' % k, 1))
        facs.append(Int('f%d' % k, 1) if (per_axis or k == 0) else facs[0])
    return dims, facs


@harness('C16', 'bindown/def', variants=[dict(rank=r, mode=m, per_axis=p) for r in (1, 2, 3) for m in ('sum', 'avg')
                                         for p in (True, False)], fuc=['prysm.detector.bindown'])
def bindown_def(v):
    """out[I] = sum over the factor-block of a (divided by the block size in avg mode); shape = shape/factor."""
    rank = v['rank']
    dims, facs = _binshape(rank, v['per_axis'])
    a = Array('a', tuple(d * f for d, f in zip(dims, facs)))
    out = call(DET + 'bindown', a, tuple(facs) if v['per_axis'] else facs[0], mode=v['mode'])
    check('shape', shape_is(out, *dims))
    I = [idx(d, 'I%d' % k) for k, d in enumerate(dims)]

    def block(k, pos):
        if k == rank:
            return elem(a, *pos)
        return sigma(facs[k], lambda d: block(k + 1, pos + [I[k] * facs[k] + d]))
    want = block(0, [])
    got = elem(out, *I)
    if v['mode'] == 'avg':
        n = 1
        for f in facs:
            n = n * f
        check('value', eq(got * n, want))
    else:
        check('value', eq(got, want))


@harness('C16', 'tile/def', variants=[dict(rank=r, scaling=m, per_axis=p) for r in (1, 2, 3) for m in ('sum', 'avg')
                                      for p in (True, False)], fuc=['prysm.detector.tile'])
def tile_def(v):
    """out[i] = a[i // factor] * (1/prod(factor) in sum scaling, 1 in avg scaling); shape = shape*factor."""
    rank = v['rank']
    dims, facs = _binshape(rank, v['per_axis'])
    a = Array('a', tuple(dims))
    out = call(DET + 'tile', a, tuple(facs) if v['per_axis'] else facs[0], scaling=v['scaling'])
    check('shape', shape_is(out, *[d * f for d, f in zip(dims, facs)]))
    I = [idx(d, 'I%d' % k) for k, d in enumerate(dims)]
    D = [idx(f, 'D%d' % k) for k, f in enumerate(facs)]
    got = elem(out, *[i * f + d for i, f, d in zip(I, facs, D)])
    n = 1
    for f in facs:
        n = n * f
    if v['scaling'] == 'sum':
        check('value', eq(got * n, elem(a, *I)))
    else:
        check('value', eq(got, elem(a, *I)))


@harness('C16', 'bindown∘tile/conserves', variants=[dict(rank=r, mode=m) for r in (1, 2) for m in ('sum', 'avg')],
         fuc=['prysm.detector.bindown', 'prysm.detector.tile'])
def bin_tile(v):
    """bindown(tile(a)) = a in matching modes: tiling then binning conserves the total (sum) / level (avg)."""
    rank = v['rank']
    dims, facs = _binshape(rank, True)
    a = Array('a', tuple(dims))
    t = call(DET + 'tile', a, tuple(facs), scaling=v['mode'])
    b = call(DET + 'bindown', t, tuple(facs), mode=v['mode'])
    check('shape', shape_is(b, *dims))
    I = [idx(d, 'I%d' % k) for k, d in enumerate(dims)]
    n = 1
    for f in facs:
        n = n * f
    # each block of tile(a) is constant: value c, n copies
    c = elem(a, *I) if v['mode'] == 'avg' else elem(a, *I) / n

    def const_block(k):
        if k == rank:
            return c
        return sigma(facs[k], lambda d: const_block(k + 1))
    got = elem(b, *I)
    if v['mode'] == 'avg':
        check('block-sum', eq(got * n, const_block(0)))
    else:
        check('block-sum', eq(got, const_block(0)))


CFAS = ['rggb', 'bggr']
SITES = {'rggb': {'r': (0, 0), 'g1': (0, 1), 'g2': (1, 0), 'b': (1, 1)},
         'bggr': {'b': (0, 0), 'g1': (0, 1), 'g2': (1, 0), 'r': (1, 1)}}


@harness('C16', 'decomposite_bayer/sites', variants=CFAS, fuc=['prysm.bayer.decomposite_bayer'])
def bayer_decomp(cfa):
    """plane c [i,j] = mosaic[2i+dy_c, 2j+dx_c] with (dy,dx) the colour's native site; planes are (h/2, w/2)."""
    H, W = Int('H', 1), Int('W', 1)
    img = Array('img', (2 * H, 2 * W))
    r, g1, g2, b = call(BAY + 'decomposite_bayer', img, cfa)
    i, j = idx(H, 'i'), idx(W, 'j')
    for nm, pl in (('r', r), ('g1', g1), ('g2', g2), ('b', b)):
        dy, dx = SITES[cfa][nm]
        check('shape-' + nm, shape_is(pl, H, W))
        check('site-' + nm, elem(pl, i, j) == elem(img, 2 * i + dy, 2 * j + dx))


@harness('C16', 'recomposite∘decomposite/identity', variants=CFAS,
         fuc=['prysm.bayer.recomposite_bayer', 'prysm.bayer.decomposite_bayer'])
def bayer_roundtrip(cfa):
    """recomposite(decomposite(m)) returns every raw sample unchanged at its own site."""
    H, W = Int('H', 1), Int('W', 1)
    img = Array('img', (2 * H, 2 * W))
    planes = call(BAY + 'decomposite_bayer', img, cfa)
    out = call(BAY + 'recomposite_bayer', *planes, cfa=cfa)
    check('shape', shape_is(out, 2 * H, 2 * W))
    y, x = idx(2 * H, 'y'), idx(2 * W, 'x')
    check('identity', elem(out, y, x) == elem(img, y, x))


@harness('C16', 'composite_bayer/sites', variants=CFAS, fuc=['prysm.bayer.composite_bayer'])
def bayer_composite(cfa):
    """the interleaved image takes each dense colour plane at that colour's own sites."""
    H, W = Int('H', 1), Int('W', 1)
    pl = {nm: Array(nm, (2 * H, 2 * W)) for nm in ('r', 'g1', 'g2', 'b')}
    out = call(BAY + 'composite_bayer', pl['r'], pl['g1'], pl['g2'], pl['b'], cfa=cfa)
    check('shape', shape_is(out, 2 * H, 2 * W))
    i, j = idx(H, 'i'), idx(W, 'j')
    for nm in pl:
        dy, dx = SITES[cfa][nm]
        check('site-' + nm, elem(out, 2 * i + dy, 2 * j + dx) == elem(pl[nm], 2 * i + dy, 2 * j + dx))


@harness('C16', 'demosaic_deinterlace/sites', variants=CFAS, fuc=['prysm.bayer.demosaic_deinterlace'])
def bayer_deinterlace(cfa):
    H, W = Int('H', 1), Int('W', 1)
    img = Array('img', (2 * H, 2 * W))
    out = call(BAY + 'demosaic_deinterlace', img, cfa)
    check('shape', shape_is(out, H, W, 3))
    i, j = idx(H, 'i'), idx(W, 'j')
    s = SITES[cfa]
    check('r', elem(out, i, j, 0) == elem(img, 2 * i + s['r'][0], 2 * j + s['r'][1]))
    check('b', elem(out, i, j, 2) == elem(img, 2 * i + s['b'][0], 2 * j + s['b'][1]))
    check('g', eq(2 * elem(out, i, j, 1), elem(img, 2 * i, 2 * j + 1) + elem(img, 2 * i + 1, 2 * j)))


@harness('C16', 'demosaic_malvar/native-sites', variants=CFAS, fuc=['prysm.bayer.demosaic_malvar'])
def bayer_malvar(cfa):
    """every raw sample is returned unchanged in the colour plane native to its site (the interpolating
    convolutions are havocked: only the native-site copies matter to the property)."""
    H, W = Int('H', 1), Int('W', 1)
    img = Array('img', (2 * H, 2 * W))
    out = call(BAY + 'demosaic_malvar', img, cfa)
    check('shape', shape_is(out, 2 * H, 2 * W, 3))
    i, j = idx(H, 'i'), idx(W, 'j')
    s = SITES[cfa]
    check('r', elem(out, 2 * i + s['r'][0], 2 * j + s['r'][1], 0) == elem(img, 2 * i + s['r'][0], 2 * j + s['r'][1]))
    check('b', elem(out, 2 * i + s['b'][0], 2 * j + s['b'][1], 2) == elem(img, 2 * i + s['b'][0], 2 * j + s['b'][1]))
    check('g1', elem(out, 2 * i, 2 * j + 1, 1) == elem(img, 2 * i, 2 * j + 1))
    check('g2', elem(out, 2 * i + 1, 2 * j, 1) == elem(img, 2 * i + 1, 2 * j))


@harness('C16', 'wb_prescale/sites', variants=CFAS, fuc=['prysm.bayer.wb_prescale'])
def wb_pre(cfa):
    """(unsafe mode) every raw sample is multiplied in place by the gain of its own colour site, nothing else."""
    H, W = Int('H', 1), Int('W', 1)
    img = Array('img', (2 * H, 2 * W))
    ref = img.copy()
    g = {nm: Real('w' + nm) for nm in ('r', 'g1', 'g2', 'b')}
    call(BAY + 'wb_prescale', img, g['r'], g['g1'], g['g2'], g['b'], cfa)
    i, j = idx(H, 'i'), idx(W, 'j')
    for nm in g:
        dy, dx = SITES[cfa][nm]
        check('site-' + nm, eq(elem(img, 2 * i + dy, 2 * j + dx), elem(ref, 2 * i + dy, 2 * j + dx) * g[nm]))


@harness('C16', 'wb_postscale/channels', fuc=['prysm.bayer.wb_postscale'])
def wb_post():
    """(unsafe mode) channel c of every pixel is multiplied in place by its own gain."""
    H, W = Int('H', 1), Int('W', 1)
    rgb = Array('rgb', (H, W, 3))
    ref = rgb.copy()
    wr, wg, wb = Real('wr'), Real('wg'), Real('wb')
    call(BAY + 'wb_postscale', rgb, wr, wg, wb)
    i, j = idx(H, 'i'), idx(W, 'j')
    for c, g in enumerate((wr, wg, wb)):
        check('channel-%d' % c, eq(elem(rgb, i, j, c), elem(ref, i, j, c) * g))


@harness('C16', 'apply_lut/def', fuc=['prysm.detector.apply_lut'])
def lut_def():
    """out[i,j] = lut[img[i,j]], same shape as img."""
    H, W, L = Int('H', 1), Int('W', 1), Int('L', 1)
    img = Array('img', (H, W), 'u', lo=0, hi=L - 1)
    lut = Array('lut', (L,))
    i, j = idx(H, 'i'), idx(W, 'j')
    out = call(DET + 'apply_lut', img, lut)
    check('shape', shape_is(out, H, W))
    check('value', elem(out, i, j) == elem(lut, elem(img, i, j)))


@harness('C16', 'bounded/integer-containers', kind='bounded', variants=['bindown-tile', 'expose-dtype'],
         fuc=['prysm.detector.bindown', 'prysm.detector.tile', 'prysm.detector.Detector.expose'])
def bounded_integer_containers(which):
    """BOUNDED (the deductive model treats integers as mathematical, assumption A2; this runs the real functions on real
    fixed-width containers): seeded uint8 / uint16 / int32 / float32 / float64 frames of shape 2..12 per axis times the binning
    factor 1..4 per axis, bright enough to overflow their container when summed: bindown(sum) conserves the exact total,
    bindown(avg) the exact level, tile(avg) (= repeat) is the adjoint of bindown(sum), tile conserves total (sum) / level (avg); expose returns an unsigned
    container wide enough for 2^bits - 1 and stays in range for dark frames with read noise larger than the bias."""
    import numpy as np
    rng = np.random.default_rng(Int('seed', 0, 10 ** 6))
    det = get('prysm.detector')
    if which == 'bindown-tile':
        fy, fx = int(rng.integers(1, 5)), int(rng.integers(1, 5))
        m, n = int(rng.integers(2, 13)) * fy, int(rng.integers(2, 13)) * fx
        dt = [np.uint8, np.uint16, np.int32, np.float32, np.float64][int(rng.integers(0, 5))]
        if np.issubdtype(dt, np.integer):
            info = np.iinfo(dt)
            hi = info.max
            a = rng.integers(int(hi * 0.6), hi, size=(m, n), endpoint=True).astype(dt)      # near saturation
        else:
            a = (rng.random((m, n)) * 1e4).astype(dt)
        exact = [[sum(int(v) if np.issubdtype(dt, np.integer) else float(v) for v in a[i * fy:(i + 1) * fy, j * fx:(j + 1) * fx].ravel())
                  for j in range(n // fx)] for i in range(m // fy)]
        exact = np.array(exact, dtype=object if np.issubdtype(dt, np.integer) else float)
        tol = dict(rtol=1e-5 if dt is np.float32 else 1e-12, atol=0)
        bs = det.bindown(a, (fy, fx), mode='sum')
        ba = det.bindown(a, (fy, fx), mode='avg')
        if np.issubdtype(dt, np.integer):
            check('bindown-sum-is-the-exact-block-total', bool(all(int(bs[i, j]) == exact[i, j] for i in range(bs.shape[0]) for j in range(bs.shape[1]))))
            check('bindown-sum-conserves-the-total', int(sum(int(v) for v in bs.ravel())) == int(sum(int(v) for v in a.ravel())))
        else:
            check('bindown-sum-is-the-exact-block-total', bool(np.allclose(bs.astype(float), exact.astype(float), **tol)))
            check('bindown-sum-conserves-the-total', bool(np.isclose(float(bs.astype(float).sum()), float(a.astype(float).sum()), **tol)))
        check('bindown-avg-is-the-block-level', bool(np.allclose(ba.astype(float), exact.astype(float) / (fy * fx), rtol=1e-5 if dt is np.float32 else 1e-12)))
        small = a[:m // fy, :n // fx]
        ts, ta = det.tile(small, (fy, fx), scaling='sum'), det.tile(small, (fy, fx), scaling='avg')
        # tile(scaling='sum') spreads each sample over its block (total conserved); tile(scaling='avg') repeats the level
        check('tile-sum-conserves-the-total', bool(np.isclose(float(np.asarray(ts, dtype=float).sum()), float(small.astype(float).sum()), rtol=1e-5)))
        check('tile-avg-repeats-the-level', bool((np.asarray(ta)[::fy, ::fx] == small).all() and np.asarray(ta).shape == (small.shape[0] * fy, small.shape[1] * fx)))
        # frames whose total is zero (a dark frame, a zero-mean residual, a signed checkerboard): linear maps, same statements
        zi, zj = np.mgrid[:small.shape[0], :small.shape[1]]
        for tag, zf in (('dark', np.zeros(small.shape)), ('checkerboard', ((zi + zj) % 2 * 2.0 - 1.0) * (1 if small.size % 2 == 0 else 0)),
                        ('zero-mean', (lambda r_: r_ - r_.mean())(rng.standard_normal(small.shape)))):
            tz = det.tile(zf, (fy, fx), scaling='sum')
            check('tile-sum-of-a-zero-total-frame-' + tag, bool(np.isfinite(tz).all() and np.allclose(det.bindown(tz, (fy, fx), mode='sum'), zf, atol=1e-12)
                                                                and np.allclose(tz[::fy, ::fx] * (fy * fx), zf, atol=1e-12)))
        # adjointness on these containers: <bindown_sum(a), y> = <a, tile_avg(y)>  (tile_avg = repeat)
        yv = rng.integers(0, 5, size=bs.shape)
        lhs = sum(int(b) * int(v) for b, v in zip(np.asarray(bs, dtype=object).ravel(), yv.ravel())) if np.issubdtype(dt, np.integer) else float((bs.astype(float) * yv).sum())
        rhs_arr = det.tile(yv, (fy, fx), scaling='avg')
        rhs = sum(int(b) * int(v) for b, v in zip(a.ravel(), np.asarray(rhs_arr).ravel())) if np.issubdtype(dt, np.integer) else float((a.astype(float) * rhs_arr).sum())
        check('bindown-sum-adjoint-to-tile-avg', bool(lhs == rhs) if np.issubdtype(dt, np.integer) else bool(np.isclose(lhs, rhs, rtol=1e-5)))
    else:
        bits = int(rng.choice([8, 10, 12, 14, 16, 24, 32]))
        bias = float(rng.choice([0.0, 1.0, 3.0, 100.0]))
        rn = float(rng.choice([0.0, 2.0, 6.0, 30.0]))
        fwc = float(rng.choice([1e3, 5e4, 1e9]))
        gain = float(rng.choice([0.05, 1.0, 4.0]))
        d = det.Detector(dark_current=float(rng.choice([0.0, 10.0])), read_noise=rn, bias=bias, fwc=fwc, conversion_gain=gain, bits=bits, exposure_time=1.0)
        img = rng.random((int(rng.integers(1, 9)), int(rng.integers(1, 9)))) * float(rng.choice([0.0, 1.0, 1e3, 1e7, 1e12]))
        # the aerial image in every memory layout a caller may hold it in
        lay = int(rng.integers(0, 3))
        img = img if lay == 0 else (np.asfortranarray(img) if lay == 1 else np.ascontiguousarray(img.T).T)
        out = d.expose(img)
        # a two-level scene (dark / 1e4 electrons, no read noise): whatever the layout, bright pixels read bright and dark pixels dark
        quiet = det.Detector(dark_current=0.0, read_noise=0.0, bias=0.0, fwc=1e9, conversion_gain=1.0, bits=16, exposure_time=1.0)
        B = rng.random(img.shape) < 0.5
        scene = B * 1e4
        scene = scene if lay == 0 else (np.asfortranarray(scene) if lay == 1 else np.ascontiguousarray(scene.T).T)
        got = quiet.expose(scene)
        check('bright-pixels-read-bright-in-every-memory-layout', bool(got.shape == B.shape and ((got > 5000) == B).all()))
        check('unsigned-container-wide-enough', bool(out.dtype.kind == 'u' and np.iinfo(out.dtype).max >= 2 ** bits - 1))
        check('DN-in-range-on-real-containers', bool(out.min() >= 0 and int(out.max()) <= 2 ** bits - 1))
        check('shape', out.shape == img.shape)
        # pixels far above the ADC range read exactly 2^bits - 1 (the clipped, gain-scaled signal) for every bit depth 1..32 and
        # every gain, dyadic or not: the clip is on the digital number, so rounding in the gain scaling cannot leave it one short
        b2 = int(rng.integers(1, 33))
        g2 = float(rng.choice([1.3, 4.9, 0.7, 0.35, 3.3, 0.05, float(rng.uniform(0.05, 8))]))
        cap = 2 ** b2 - 1
        level = max(cap * g2 * float(rng.choice([1.5, 4.0, 50.0])), 1e4)      # >= 1e4 electrons: shot noise cannot bring it near the cap
        sat = det.Detector(dark_current=0.0, read_noise=0.0, bias=0.0, fwc=level * 1e3, conversion_gain=g2, bits=b2, exposure_time=1.0)
        hot = np.full((3, 4), level)
        hot[0, 0] = 0.0
        dn = sat.expose(hot)
        check('saturated-pixels-read-exactly-full-scale', bool((dn[hot > 0] == cap).all() and int(dn[0, 0]) == 0))
        # signal above the full well but inside the ADC range: the well clips first, the reading is fwc / gain to the unit
        fwc3 = float(rng.integers(10, 2000))
        g3 = float(rng.choice([1.0, 0.5, 2.0, 0.25]))
        well = det.Detector(dark_current=0.0, read_noise=0.0, bias=0.0, fwc=fwc3, conversion_gain=g3, bits=32, exposure_time=1.0)
        dnw = well.expose(np.full((2, 3), fwc3 * 40.0 + 1e4))
        check('full-well-clips-before-the-adc', bool((dnw == int(fwc3 / g3)).all()))
        # the same with a full well that is not a whole number of electrons and the bias given as a python int or a float (what the
        # caller typed must not matter): noise sources off, so the reading is the clipped, gain-scaled signal floor(fwc / gain)
        fwc4 = float(rng.integers(10, 2000)) + float(rng.choice([0.25, 0.5, 0.75]))
        g4 = float(rng.choice([0.25, 0.5, 0.125]))
        bias4 = [0, 100, 0.0, 100.0][int(rng.integers(0, 4))]
        well4 = det.Detector(dark_current=0.0, read_noise=[0, 0.0][int(rng.integers(0, 2))], bias=bias4, fwc=fwc4, conversion_gain=g4, bits=32, exposure_time=1.0)
        dn4 = well4.expose(np.full((2, 3), fwc4 * 40.0 + 1e4))
        check('fractional-full-well-clips-to-fwc-over-gain', bool((dn4 == int(fwc4 / g4)).all()))
