"""C12 — interferogram data, mask and coordinates stay coherent over any history."""
from pvc.api import *


def _coherent(np, ifg, tag):
    out = []
    H, W = ifg.data.shape
    x, y, r, t = ifg.x, ifg.y, ifg.r, ifg.t
    out.append((tag + '/coordinate-shapes', all(a.shape == (H, W) for a in (x, y, r, t))))
    if all(a.shape == (H, W) for a in (x, y, r, t)):
        okx = (W < 2 or np.allclose(np.diff(x, axis=1), ifg.dx)) and (H < 2 or np.allclose(np.diff(x, axis=0), 0))
        oky = (H < 2 or np.allclose(np.diff(y, axis=0), ifg.dx)) and (W < 2 or np.allclose(np.diff(y, axis=1), 0))
        out.append((tag + '/spaced-by-current-dx', bool(okx and oky)))
        out.append((tag + '/polar-of-current-cartesian', bool(np.allclose(r, np.hypot(x, y)) and np.allclose(t, np.arctan2(y, x)))))
    return out


@harness('C12', 'bounded/operation-histories', kind='bounded', variants=['random-history', 'statistics', 'idempotence'],
         fuc=['prysm._richdata.RichData.x', 'prysm._richdata.RichData.y', 'prysm._richdata.RichData.r', 'prysm._richdata.RichData.t',
              'prysm.interferogram.Interferogram.fill', 'prysm.interferogram.Interferogram.crop', 'prysm.interferogram.Interferogram.recenter',
              'prysm.interferogram.Interferogram.remove_piston', 'prysm.interferogram.Interferogram.remove_tiptilt',
              'prysm.interferogram.Interferogram.remove_power', 'prysm.interferogram.Interferogram.mask',
              'prysm.interferogram.Interferogram.strip_latcal', 'prysm.interferogram.Interferogram.latcal',
              'prysm.interferogram.Interferogram.pad', 'prysm.interferogram.Interferogram.spike_clip', 'prysm.interferogram.Interferogram.filter',
              'prysm.util.mean', 'prysm.util.pv', 'prysm.util.rms', 'prysm.util.Sa', 'prysm.util.std'])
def histories(which):
    """BOUNDED (the property quantifies over operation HISTORIES on a mutable object; a class invariant for the real methods would
    need boolean-mask selection and lstsq, both outside the symbolic subset): seeded sequences of 1..8 processing steps with reads of
    x / y / r / t interleaved (so the caches are populated in every pattern), shapes 5..12 per axis (non-square, odd/even), NaN
    patterns (none, circular aperture, ragged edge, interior dropouts), every dx; after EVERY step the coordinates must have the data's
    shape, be spaced by the current dx, and r, t be the polar form of the current x, y; steps that do not claim to change validity
    leave the invalid set unchanged."""
    import numpy as np
    rng = np.random.default_rng(Int('seed', 0, 10 ** 6))
    I = get('prysm.interferogram.Interferogram')
    U = get('prysm.util')
    H, W = int(rng.integers(5, 13)), int(rng.integers(5, 13))
    z = rng.standard_normal((H, W)) * 10
    pattern = str(rng.choice(['none', 'circle', 'ragged', 'dropouts']))
    yy, xx = np.mgrid[:H, :W]
    if pattern == 'circle':
        z[np.hypot(yy - H // 2, xx - W // 2) > min(H, W) / 2 - 0.5] = np.nan
    elif pattern == 'ragged':
        z[:int(rng.integers(0, 2)), :] = np.nan
        z[:, -int(rng.integers(1, 3)):] = np.nan
        z[-1, :int(rng.integers(0, W))] = np.nan
    elif pattern == 'dropouts':
        z[rng.random((H, W)) < 0.15] = np.nan
    if not np.isfinite(z).any():
        z[H // 2, W // 2] = 1.0
    dx = float(rng.uniform(0.05, 3))
    ifg = I(z.copy(), dx=dx)
    if which == 'random-history':
        ops = ['read-xy', 'read-rt', 'remove_piston', 'remove_tiptilt', 'remove_power', 'recenter', 'latcal', 'strip_latcal', 'pad',
               'crop', 'mask', 'fill', 'spike_clip', 'filter']
        results = []
        for step in range(int(rng.integers(1, 9))):
            op = str(rng.choice(ops))
            before = np.isnan(ifg.data).copy()
            keep_validity = op in ('read-xy', 'read-rt', 'remove_piston', 'remove_tiptilt', 'remove_power', 'recenter', 'latcal', 'strip_latcal')
            if op == 'read-xy':
                ifg.x, ifg.y
            elif op == 'read-rt':
                ifg.r, ifg.t
            elif op == 'latcal':
                ifg.latcal(float(rng.uniform(0.05, 3)))
            elif op == 'pad':
                if rng.random() < 0.5:
                    ifg.pad(samples=(int(rng.integers(0, 4)), int(rng.integers(0, 4))))
                else:
                    ifg.pad(shape=(ifg.data.shape[0] + int(rng.integers(0, 4)), ifg.data.shape[1] + int(rng.integers(0, 4))))
            elif op == 'mask':
                m = rng.random(ifg.data.shape) < 0.9
                m[ifg.data.shape[0] // 2, ifg.data.shape[1] // 2] = True
                ifg.mask(m)
            elif op == 'fill':
                ifg.fill(0.0)
            elif op == 'filter':
                if np.isnan(ifg.data).any():
                    continue
                ifg.filter(0.25 / ifg.dx, 'lowpass')
            else:
                if op in ('remove_tiptilt', 'remove_power', 'spike_clip') and np.isfinite(ifg.data).sum() < 6:
                    continue
                getattr(ifg, op)()
            results += _coherent(np, ifg, 'after-' + op)
            if keep_validity and ifg.data.shape == before.shape:
                results.append(('after-' + op + '/validity-unchanged', bool((np.isnan(ifg.data) == before).all())))
        agg = {}
        for name, ok in results:
            agg[name] = agg.get(name, True) and bool(ok)
        for name in sorted(agg):
            check(name, agg[name])
    elif which == 'statistics':
        d = ifg.data
        fin = d[np.isfinite(d)]
        check('mean-ignores-invalid', bool(np.isclose(U.mean(d), fin.mean())))
        # "the reported statistics ignore invalid samples": each one equals the statistic of the valid samples alone
        check('pv-ignores-invalid', bool(np.isclose(U.pv(d), fin.max() - fin.min())))
        check('rms-ignores-invalid', bool(np.isclose(U.rms(d), np.sqrt((fin ** 2).mean()))))
        check('std-ignores-invalid', bool(np.isclose(U.std(d), fin.std())))
        check('Sa-ignores-invalid', bool(np.isclose(U.Sa(d), abs(fin - fin.mean()).mean())))
        if hasattr(ifg, 'Sa'):
            check('interferogram-Sa', bool(np.isclose(ifg.Sa, abs(fin - fin.mean()).mean())))
        check('rms2=std2+mean2', bool(np.isclose(U.rms(d) ** 2, U.std(d) ** 2 + U.mean(d) ** 2)))
        check('Sa<=std<=PV', bool(U.Sa(d) <= U.std(d) + 1e-12 and U.std(d) <= U.pv(d) + 1e-12))
        check('interferogram-properties', bool(np.isclose(ifg.rms, U.rms(d)) and np.isclose(ifg.pv, U.pv(d)) and np.isclose(ifg.std, U.std(d))))
        ifg.remove_piston()
        check('piston-removed-leaves-zero-mean', bool(abs(U.mean(ifg.data)) < 1e-9))
    else:
        if np.isfinite(ifg.data).sum() < 8:
            raise PathAbort('too few samples')
        ifg.remove_tiptilt()
        a = ifg.data.copy()
        ifg.remove_tiptilt()
        check('tilt-removal-idempotent', bool(np.allclose(a, ifg.data, atol=1e-9, equal_nan=True)))
        ifg.remove_power()
        b = ifg.data.copy()
        ifg.remove_power()
        check('power-removal-idempotent', bool(np.allclose(b, ifg.data, atol=1e-8, equal_nan=True)))
        nvalid = int(np.isfinite(ifg.data).sum())
        ifg.crop()
        s1 = ifg.data.shape
        check('crop-keeps-every-valid-sample', int(np.isfinite(ifg.data).sum()) == nvalid)
        d1 = ifg.data
        check('crop-is-bounding-box', bool(np.isfinite(d1[0, :]).any() and np.isfinite(d1[-1, :]).any()
                                           and np.isfinite(d1[:, 0]).any() and np.isfinite(d1[:, -1]).any()))
        ifg.crop()
        check('crop-idempotent', ifg.data.shape == s1)
        for name, ok in _coherent(np, ifg, 'after-crop'):
            check(name, ok)
