"""C12 — interferogram data, mask and coordinates stay coherent over any history."""
from pvc.api import *


def _coherent(np, ifg, tag):
    out = []
    H, W = ifg.data.shape
    x, y, r, t = ifg.x, ifg.y, ifg.r, ifg.t
    out.append((tag + '/coordinate-shapes', all(a.shape == (H, W) for a in (x, y, r, t))))
    if all(a.shape == (H, W) for a in (x, y, r, t)):
        okx = (W < 2 or np.allclose(np.diff(x, axis=1), ifg.dx)) and (H < 2 or np.allclose(np.diff(x, axis=0), 0))
        oky = (H < 2 or np.allclose(np.diff(y, axis=0), ifg.dx)) and (W < 2 or np.allclose(np.diff(y, axis=1), 0))
        out.append((tag + '/spaced-by-current-dx', bool(okx and oky)))
        out.append((tag + '/polar-of-current-cartesian', bool(np.allclose(r, np.hypot(x, y)) and np.allclose(t, np.arctan2(y, x)))))
    return out


# ------------------------------------------------------------------------------------------ class invariant (deductive)
# Inv(ifg): whatever coordinate arrays are cached have the shape of the data, x is spaced by dx along columns and constant along
# rows, y the other way round, and cached polar arrays are hypot / arctan2 of the cached Cartesian ones (and are only present when
# the Cartesian ones are).  Every grid with these properties is  x[i,j] = x0 + j dx, y[i,j] = y0 + i dx  for some offsets, so "an
# arbitrary state satisfying Inv" is: arbitrary data of arbitrary shape, arbitrary dx > 0, arbitrary offsets, and each cache either
# absent or holding exactly that grid.  Each coordinate-affecting operation is proved to map Inv-states to Inv-states as seen
# through the PUBLIC x / y / r / t properties; by induction over the history the exposed coordinates are coherent after any
# sequence of them.  Operations that only write data VALUES (mask, fill, piston / tilt / power removal, spike clip) depend on NaN, which the
# real-valued model does not have; they and crop (data-dependent bounding box) and filter stay with the bounded harness.
_OPS = ['pad-samples-int', 'pad-samples-tuple', 'pad-shape', 'latcal', 'strip_latcal', 'recenter', 'read-only']


def _inv_state(cache, calibrated=True):
    """an Interferogram in an arbitrary Inv-state; cache in {'none', 'xy', 'xyrt'}; calibrated=False: the pixel-unit state
    strip_latcal leaves behind (dx = 1, _latcaled False)"""
    np_ = get('prysm.mathops.np')
    h, w = Int('h', 1), Int('w', 1)
    d = Array('d', (h, w))
    dx = Real('dx', pos=True)
    ifg = get('prysm.interferogram.Interferogram')(d, dx=dx, wavelength=Real('wvl', pos=True))
    if not calibrated:
        ifg.strip_latcal()
        ifg._x = ifg._y = ifg._r = ifg._t = None
        dx = 1
    x0, y0 = Real('x0'), Real('y0')
    if cache != 'none':
        X = np_.broadcast_to(x0 + np_.arange(w)[None, :] * dx, (h, w)) * 1.0
        Y = np_.broadcast_to(y0 + np_.arange(h)[:, None] * dx, (h, w)) * 1.0
        ifg._x, ifg._y = X, Y
        if cache == 'xyrt':
            ifg._r, ifg._t = np_.hypot(X, Y), np_.arctan2(Y, X)
    return ifg, d, h, w, dx


def _check_inv(ifg, H, W, dx, tag=''):
    x, y = ifg.x, ifg.y
    i, j = idx(H, 'pi'), idx(W, 'pj')
    check(tag + 'coordinate-shapes', And(shape_is(x, H, W), shape_is(y, H, W)))
    check(tag + 'x-spaced-by-current-dx', And(Implies(j + 1 < W, approx(elem(x, i, ite(j + 1 < W, j + 1, j)) - elem(x, i, j), dx, 1e-9)),
                                              Implies(i + 1 < H, approx(elem(x, ite(i + 1 < H, i + 1, i), j), elem(x, i, j), 1e-9))))
    check(tag + 'y-spaced-by-current-dx', And(Implies(i + 1 < H, approx(elem(y, ite(i + 1 < H, i + 1, i), j) - elem(y, i, j), dx, 1e-9)),
                                              Implies(j + 1 < W, approx(elem(y, i, ite(j + 1 < W, j + 1, j)), elem(y, i, j), 1e-9))))
    r, t = ifg.r, ifg.t
    check(tag + 'polar-shapes', And(shape_is(r, H, W), shape_is(t, H, W)))
    xe, ye = elem(x, i, j), elem(y, i, j)
    check(tag + 'r-is-hypot-of-current-xy', And(elem(r, i, j) >= 0, approx(elem(r, i, j) * elem(r, i, j), xe * xe + ye * ye, 1e-9)))
    if MODE == 'symbolic':
        from pvc import symnp
        check(tag + 't-is-arctan2-of-current-xy', elem(t, i, j) == symnp.arctan2(ye, xe))
    else:
        import math
        check(tag + 't-is-arctan2-of-current-xy', approx(elem(t, i, j), math.atan2(ye, xe), 1e-9))


@harness('C12', 'invariant/coordinates-coherent-after',
         variants=[dict(op=o, cache=c) for o in _OPS for c in ('none', 'xy', 'xyrt')] +
                  [dict(op=o, cache=c, uncalibrated=True) for o in ('pad-samples-int', 'pad-shape', 'recenter', 'latcal', 'read-only') for c in ('none', 'xy', 'xyrt')],
         fuc=['prysm._richdata.RichData.x', 'prysm._richdata.RichData.y', 'prysm._richdata.RichData.r', 'prysm._richdata.RichData.t',
              'prysm.interferogram.Interferogram.pad', 'prysm.interferogram.Interferogram.latcal', 'prysm.interferogram.Interferogram.strip_latcal',
              'prysm.interferogram.Interferogram.recenter'])
def invariant_step(v):
    """one step of the induction: from ANY state satisfying the class invariant (every shape, dx, grid offset, cache population, calibrated or stripped to pixel units),
    after the operation the exposed x / y / r / t have the data's shape, are spaced by the current dx, and the polar arrays are
    those of the current Cartesian ones; operations that do not change shape or spacing leave shape and dx as they were."""
    ifg, d, h, w, dx = _inv_state(v['cache'], calibrated=not v.get('uncalibrated', False))
    op = v['op']
    H, W, newdx = h, w, dx
    if op == 'pad-samples-int':
        p = Int('p', 0)
        ifg.pad(samples=p)
        H, W = h + p, w + p
    elif op == 'pad-samples-tuple':
        p, q = Int('p', 0), Int('q', 0)
        ifg.pad(samples=(p, q))
        H, W = h + p, w + q
    elif op == 'pad-shape':
        H, W = Int('H', 1), Int('W', 1)
        assume(And(H >= h, W >= w))
        ifg.pad(shape=(H, W))
    elif op == 'latcal':
        newdx = Real('plate_scale', pos=True)
        ifg.latcal(newdx)
    elif op == 'strip_latcal':
        ifg.strip_latcal()
        newdx = 1
    elif op == 'recenter':
        ifg.recenter()
    check('data-shape', shape_is(ifg.data, H, W))
    check('dx', approx(ifg.dx, newdx, 1e-12))
    _check_inv(ifg, H, W, newdx)
    if op == 'recenter':
        check('origin-sample-is-zero', And(approx(elem(ifg.x, H // 2, W // 2), 0, 1e-9), approx(elem(ifg.y, H // 2, W // 2), 0, 1e-9)))


@harness('C12', 'bounded/operation-histories', kind='bounded', variants=['random-history', 'statistics', 'idempotence', 'filter', 'degenerate-maps'],
         fuc=['prysm._richdata.RichData.x', 'prysm._richdata.RichData.y', 'prysm._richdata.RichData.r', 'prysm._richdata.RichData.t',
              'prysm.interferogram.Interferogram.fill', 'prysm.interferogram.Interferogram.crop', 'prysm.interferogram.Interferogram.recenter',
              'prysm.interferogram.Interferogram.remove_piston', 'prysm.interferogram.Interferogram.remove_tiptilt',
              'prysm.interferogram.Interferogram.remove_power', 'prysm.interferogram.Interferogram.mask',
              'prysm.interferogram.Interferogram.strip_latcal', 'prysm.interferogram.Interferogram.latcal',
              'prysm.interferogram.Interferogram.pad', 'prysm.interferogram.Interferogram.spike_clip', 'prysm.interferogram.Interferogram.filter',
              'prysm.util.mean', 'prysm.util.pv', 'prysm.util.rms', 'prysm.util.Sa', 'prysm.util.std'])
def histories(which):
    """BOUNDED (the property quantifies over operation HISTORIES on a mutable object; a class invariant for the real methods would
    need boolean-mask selection and lstsq, both outside the symbolic subset): seeded sequences of 1..8 processing steps with reads of
    x / y / r / t interleaved (so the caches are populated in every pattern), shapes 5..12 per axis (non-square, odd/even), NaN
    patterns (none, circular aperture, ragged edge, interior dropouts), every dx; after EVERY step the coordinates must have the data's
    shape, be spaced by the current dx, and r, t be the polar form of the current x, y; steps that do not claim to change validity
    leave the invalid set unchanged."""
    import numpy as np
    rng = np.random.default_rng(Int('seed', 0, 10 ** 6))
    I = get('prysm.interferogram.Interferogram')
    U = get('prysm.util')
    H, W = int(rng.integers(5, 13)), int(rng.integers(5, 13))
    z = rng.standard_normal((H, W)) * 10
    pattern = str(rng.choice(['none', 'circle', 'ragged', 'dropouts']))
    yy, xx = np.mgrid[:H, :W]
    if pattern == 'circle':
        z[np.hypot(yy - H // 2, xx - W // 2) > min(H, W) / 2 - 0.5] = np.nan
    elif pattern == 'ragged':
        z[:int(rng.integers(0, 2)), :] = np.nan
        z[:, -int(rng.integers(1, 3)):] = np.nan
        z[-1, :int(rng.integers(0, W))] = np.nan
    elif pattern == 'dropouts':
        z[rng.random((H, W)) < 0.15] = np.nan
    if not np.isfinite(z).any():
        z[H // 2, W // 2] = 1.0
    dx = float(rng.uniform(0.05, 3))
    ifg = I(vary_layout(rng, z.copy()).copy(order='K'), dx=dx)      # the map in any memory layout
    if which == 'random-history':
        ops = ['read-xy', 'read-rt', 'read-x', 'read-y', 'read-r', 'read-t', 'remove_piston', 'remove_tiptilt', 'remove_power', 'recenter', 'latcal', 'strip_latcal', 'pad',
               'crop', 'mask', 'fill', 'spike_clip', 'filter']
        results = []
        for step in range(int(rng.integers(1, 9))):
            op = str(rng.choice(ops))
            before = np.isnan(ifg.data).copy()
            keep_validity = op in ('read-xy', 'read-rt', 'read-x', 'read-y', 'read-r', 'read-t', 'remove_piston', 'remove_tiptilt', 'remove_power', 'recenter', 'latcal', 'strip_latcal')
            if op == 'read-xy':
                ifg.x, ifg.y
            elif op == 'read-rt':
                ifg.r, ifg.t
            elif op in ('read-x', 'read-y', 'read-r', 'read-t'):
                getattr(ifg, op[-1])          # one coordinate alone (the usual `mask(circle(R, ifg.r))` idiom reads only r)
            elif op == 'latcal':
                ifg.latcal(float(rng.uniform(0.05, 3)))
            elif op == 'pad':
                if rng.random() < 0.5:
                    ifg.pad(samples=(int(rng.integers(0, 4)), int(rng.integers(0, 4))))
                else:
                    ifg.pad(shape=(ifg.data.shape[0] + int(rng.integers(0, 4)), ifg.data.shape[1] + int(rng.integers(0, 4))))
            elif op == 'mask':
                m = rng.random(ifg.data.shape) < 0.9
                m[ifg.data.shape[0] // 2, ifg.data.shape[1] // 2] = True
                ifg.mask(m)
            elif op == 'fill':
                ifg.fill(0.0)
            elif op == 'filter':
                if np.isnan(ifg.data).any():
                    continue
                ifg.filter(0.25 / ifg.dx, 'lowpass')
            else:
                if op in ('remove_tiptilt', 'remove_power', 'spike_clip') and np.isfinite(ifg.data).sum() < 6:
                    continue
                getattr(ifg, op)()
            results += _coherent(np, ifg, 'after-' + op)
            if keep_validity and ifg.data.shape == before.shape:
                results.append(('after-' + op + '/validity-unchanged', bool((np.isnan(ifg.data) == before).all())))
        agg = {}
        for name, ok in results:
            agg[name] = agg.get(name, True) and bool(ok)
        for name in sorted(agg):
            check(name, agg[name])
    elif which == 'statistics':
        d = ifg.data
        fin = d[np.isfinite(d)]
        check('mean-ignores-invalid', bool(np.isclose(U.mean(d), fin.mean())))
        # "the reported statistics ignore invalid samples": each one equals the statistic of the valid samples alone
        check('pv-ignores-invalid', bool(np.isclose(U.pv(d), fin.max() - fin.min())))
        check('rms-ignores-invalid', bool(np.isclose(U.rms(d), np.sqrt((fin ** 2).mean()))))
        check('std-ignores-invalid', bool(np.isclose(U.std(d), fin.std())))
        check('Sa-ignores-invalid', bool(np.isclose(U.Sa(d), abs(fin - fin.mean()).mean())))
        if hasattr(ifg, 'Sa'):
            check('interferogram-Sa', bool(np.isclose(ifg.Sa, abs(fin - fin.mean()).mean())))
        check('rms2=std2+mean2', bool(np.isclose(U.rms(d) ** 2, U.std(d) ** 2 + U.mean(d) ** 2)))
        check('Sa<=std<=PV', bool(U.Sa(d) <= U.std(d) + 1e-12 and U.std(d) <= U.pv(d) + 1e-12))
        check('interferogram-properties', bool(np.isclose(ifg.rms, U.rms(d)) and np.isclose(ifg.pv, U.pv(d)) and np.isclose(ifg.std, U.std(d))))
        ifg.remove_piston()
        check('piston-removed-leaves-zero-mean', bool(abs(U.mean(ifg.data)) < 1e-9))
        # single-precision phase maps that still carry a piston much larger than their ripple (statistics read before the piston is
        # removed): the statistics must be those of the samples, not of a cancellation
        ripple = rng.standard_normal((H, W)).astype(np.float32)
        big = (ripple + np.float32(rng.uniform(1e3, 2e4))).astype(np.float32)
        big[~np.isfinite(d)] = np.nan
        ref = big[np.isfinite(big)].astype(np.float64)
        i32 = I(big.copy(), dx=dx)
        check('float32-with-piston-std', bool(np.isclose(float(U.std(big)), ref.std(), rtol=2e-2) and np.isclose(float(i32.std), ref.std(), rtol=2e-2)))
        check('float32-with-piston-Sa<=std<=PV', bool(float(U.Sa(big)) <= float(U.std(big)) * (1 + 1e-3) and float(U.std(big)) <= float(U.pv(big)) * (1 + 1e-3)))
    elif which == 'degenerate-maps':
        # maps whose valid samples lie on one line through the origin (a single row or column of data, a map masked down to the
        # row through the origin) and maps without lateral calibration (dx = 0, the constructor default): tilt / piston removal
        # keeps every valid sample valid and finite, and the coordinates stay coherent
        import warnings
        kind = str(rng.choice(['column', 'row', 'masked-to-a-row', 'uncalibrated']))
        if kind == 'column':
            zz = rng.standard_normal((H, 1))
        elif kind == 'row':
            zz = rng.standard_normal((1, W))
        elif kind == 'masked-to-a-row':
            zz = np.full((H, W), np.nan)
            zz[H // 2, :] = rng.standard_normal(W)
        else:
            zz = rng.standard_normal((H, W))
        g = I(zz.copy(), dx=0 if kind == 'uncalibrated' else dx)
        before = np.isnan(g.data).copy()
        with warnings.catch_warnings():
            warnings.simplefilter('ignore')
            g.remove_piston()
            g.remove_tiptilt()
        check('validity-unchanged-by-piston-and-tilt-removal', bool((np.isnan(g.data) == before).all()))
        check('valid-samples-stay-finite', bool(np.isfinite(g.data[~before]).all()))
        check('coordinate-shapes', all(a.shape == g.data.shape for a in (g.x, g.y, g.r, g.t)))
    elif which == 'filter':
        # NaN-free maps of every parity through every filter type: the data keep their shape, so do the coordinates
        z2 = rng.standard_normal((H, W)) * 10
        f2 = I(z2.copy(), dx=dx)
        if rng.random() < 0.5:
            _ = f2.x, f2.r
        nyq = 0.5 / dx
        typ = str(rng.choice(['lowpass', 'highpass', 'bandpass', 'bandreject']))
        fc = float(rng.uniform(0.1, 0.8)) * nyq if typ in ('lowpass', 'highpass') else (0.2 * nyq, 0.6 * nyq)
        f2.filter(fc, typ)
        check('filter-keeps-the-shape', f2.data.shape == (H, W))
        for name, ok in _coherent(np, f2, 'after-filter'):
            check(name, ok)
        check('filter-output-finite-and-real', bool(np.isfinite(f2.data).all() and np.isrealobj(f2.data)))
    else:
        if np.isfinite(ifg.data).sum() < 8:
            raise PathAbort('too few samples')
        ifg.remove_tiptilt()
        a = ifg.data.copy()
        ifg.remove_tiptilt()
        check('tilt-removal-idempotent', bool(np.allclose(a, ifg.data, atol=1e-9, equal_nan=True)))
        ifg.remove_power()
        b = ifg.data.copy()
        ifg.remove_power()
        check('power-removal-idempotent', bool(np.allclose(b, ifg.data, atol=1e-8, equal_nan=True)))
        nvalid = int(np.isfinite(ifg.data).sum())
        for c in 'xyrt':
            if rng.random() < 0.35:
                getattr(ifg, c)          # any subset of the coordinates read (cached) before the crop
        ifg.crop()
        s1 = ifg.data.shape
        check('crop-keeps-every-valid-sample', int(np.isfinite(ifg.data).sum()) == nvalid)
        d1 = ifg.data
        check('crop-is-bounding-box', bool(np.isfinite(d1[0, :]).any() and np.isfinite(d1[-1, :]).any()
                                           and np.isfinite(d1[:, 0]).any() and np.isfinite(d1[:, -1]).any()))
        ifg.crop()
        check('crop-idempotent', ifg.data.shape == s1)
        for name, ok in _coherent(np, ifg, 'after-crop'):
            check(name, ok)
