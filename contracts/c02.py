"""C02 — propagators conserve energy and invert each other."""
from pvc.api import *

PR = 'prysm.propagation.'


@harness('C02', 'shifts/ifftshift-undoes-fftshift', variants=[1, 2], fuc=['prysm.propagation.focus', 'prysm.propagation.unfocus'])
def shift_inverse(rank):
    """fftshift(ifftshift(a)) = a and ifftshift(fftshift(a)) = a for every length and parity (index maps mod n): the pairing used by
    focus/unfocus (ifftshift on the way in, fftshift on the way out) is a pair of mutually inverse permutations."""
    fft = get('prysm.mathops.fft')
    shp = (Int('n', 1),) if rank == 1 else (Int('h', 1), Int('w', 1))
    a = Array('a', shp, 'c')
    ix = tuple(idx(d, 'i%d' % k) for k, d in enumerate(shp))
    r1 = fft.fftshift(fft.ifftshift(a))
    r2 = fft.ifftshift(fft.fftshift(a))
    check('fftshift-after-ifftshift', elem(r1, *ix) == elem(a, *ix))
    check('ifftshift-after-fftshift', elem(r2, *ix) == elem(a, *ix))


@harness('C02', 'angular_spectrum_transfer_function/kernel', variants=['tuple', 'int'],
         fuc=['prysm.propagation.angular_spectrum_transfer_function'])
def as_tf(kind):
    """tf[i,j] = E[-pi lambda z (ky_i^2 + kx_j^2)] with k = fftfreq(samples, dx), lambda in mm: hence |tf| = 1, tf = 1 at z = 0,
    tf(z) tf(-z) = 1 and tf(z1) tf(z2) = tf(z1 + z2) for every shape, spacing, wavelength and distance of either sign."""
    h, w = Int('h', 1), Int('w', 1)
    if kind == 'int':
        w = h
    wvl, dx = Real('wvl', pos=True), Real('dx', pos=True)
    z1, z2 = Real('z1'), Real('z2')
    f = get(PR + 'angular_spectrum_transfer_function')
    shp = (h, w) if kind == 'tuple' else h
    t1, t2, t12, tm, t0 = f(shp, wvl, dx, z1), f(shp, wvl, dx, z2), f(shp, wvl, dx, z1 + z2), f(shp, wvl, dx, -z1), f(shp, wvl, dx, 0)
    check('shape', shape_is(t1, h, w))
    i, j = idx(h, 'i'), idx(w, 'j')
    ky = ite(i <= (h - 1) // 2, i, i - h) / (h * dx)
    kx = ite(j <= (w - 1) // 2, j, j - w) / (w * dx)
    check('kernel', approx(elem(t1, i, j), expi(-pi * (wvl / 1000) * z1 * (ky * ky + kx * kx)), 1e-9))
    check('unit-modulus', approx(abs2(elem(t1, i, j)), 1, 1e-9))
    check('identity-at-zero', approx(elem(t0, i, j), 1, 1e-12))
    check('inverse-at-negated-distance', approx(elem(t1, i, j) * elem(tm, i, j), 1, 1e-9))
    check('additive-in-distance', approx(elem(t1, i, j) * elem(t2, i, j), elem(t12, i, j), 1e-9))


@harness('C02', 'bounded/unitary-and-inverse', kind='bounded',
         variants=['focus-unfocus', 'pad-energy', 'mdft-czt-full-band-roundtrip', 'angular-spectrum', 'wavefront-methods'],
         fuc=['prysm.propagation.focus', 'prysm.propagation.unfocus', 'prysm.fttools.pad2d', 'prysm.fttools.MatrixDFTExecutor.dft2',
              'prysm.fttools.MatrixDFTExecutor.idft2', 'prysm.fttools.ChirpZTransformExecutor.czt2', 'prysm.propagation.angular_spectrum',
              'prysm.propagation.Wavefront.focus', 'prysm.propagation.Wavefront.unfocus', 'prysm.propagation.Wavefront.free_space'])
def bounded_unitary(which):
    """BOUNDED (Parseval and fft/ifft inversion are library theorems, not modelled): seeded complex fields of every shape 1..8 per
    axis: focus/unfocus unitary and mutually inverse at Q = 1, energy kept by zero padding for integer Q, full-band mdft/czt
    round trips, angular spectrum energy / identity / inverse / additivity (Q = 1 and on the padded array), float32 and float64."""
    import numpy as np
    rng = np.random.default_rng(Int('seed', 0, 10 ** 6))
    pr = get('prysm.propagation')
    ft = get('prysm.fttools')
    m, n = int(rng.integers(1, 9)), int(rng.integers(1, 9))
    f = vary_layout(rng, rng.standard_normal((m, n)) + 1j * rng.standard_normal((m, n)))      # any memory layout
    E = lambda a: float((abs(a) ** 2).sum())
    if which == 'focus-unfocus':
        for Q in (1, 2, 3):
            check('focus-energy-Q%d' % Q, bool(np.isclose(E(pr.focus(f, Q)), E(f))))
            check('unfocus-energy-Q%d' % Q, bool(np.isclose(E(pr.unfocus(f, Q)), E(f))))
        check('unfocus-after-focus', bool(np.allclose(pr.unfocus(pr.focus(f, 1), 1), f)))
        check('focus-after-unfocus', bool(np.allclose(pr.focus(pr.unfocus(f, 1), 1), f)))
    elif which == 'pad-energy':
        Q = int(rng.integers(1, 4))
        p = ft.pad2d(f, Q)
        check('energy', bool(np.isclose(E(p), E(f))))
        p2 = ft.pad2d(f, out_shape=(m + int(rng.integers(0, 5)), n + int(rng.integers(0, 5))))
        check('energy-out_shape', bool(np.isclose(E(p2), E(f))))
    elif which == 'mdft-czt-full-band-roundtrip':
        tight = dict(rtol=1e-10, atol=1e-12)
        # any output size M >= m is a complete band at Q = M / m (per axis): terminating and non-terminating ratios alike
        if rng.random() < 0.4:
            # larger fields: band sizes whose ratio M / m is not exactly representable (11 -> 25, 19 -> 21, 21 -> 23 ...)
            m, n = int(rng.integers(9, 25)), int(rng.integers(9, 25))
            f = vary_layout(rng, rng.standard_normal((m, n)) + 1j * rng.standard_normal((m, n)))
        M, N = m + int(rng.integers(0, 2 * m + 1)), n + int(rng.integers(0, 2 * n + 1))
        if rng.random() < 0.3:
            k = int(rng.integers(1, 4))
            M, N = m * k, n * k
        Q = (M / m, N / n)
        if M * n == N * m and rng.random() < 0.5:
            Q = M / m                             # the scalar calling convention
        if rng.random() < 0.5:
            # the same geometry used first in single precision: a double-precision call afterwards must not inherit anything from it
            for fw in (ft.mdft.dft2, ft.czt.czt2):
                fw(f.astype(np.complex64), Q, (M, N))
        for fw, bw, tag in ((ft.mdft.dft2, ft.mdft.idft2, 'mdft'), (ft.czt.czt2, ft.czt.iczt2, 'czt')):
            F = fw(f, Q, (M, N))
            check(tag + '-energy', bool(np.isclose(E(F), E(f), **tight)))
            back = bw(F, 1.0, (m, n))      # the band is complete: M = m Q samples at Q' = m Q / M = 1
            check(tag + '-roundtrip', bool(np.allclose(back, f, atol=1e-10 * (1 + abs(f).max()), rtol=0)))
    elif which == 'angular-spectrum':
        wvl, dx = float(rng.uniform(0.4, 1.0)), float(rng.uniform(0.005, 0.05))
        if rng.random() < 0.3:
            dx = wvl / 1e3 * float(rng.uniform(0.05, 0.6))     # sampling finer than the wavelength: still a unit-modulus kernel
        z1, z2 = float(rng.uniform(-50, 50)), float(rng.uniform(-50, 50))
        for Q in (1, 2):
            g = ft.pad2d(f, Q) if Q != 1 else f
            a = pr.angular_spectrum(f, wvl, dx, z1, Q=Q)
            check('energy-Q%d' % Q, bool(np.isclose(E(a), E(f))))
            check('identity-at-zero-Q%d' % Q, bool(np.allclose(pr.angular_spectrum(f, wvl, dx, 0.0, Q=Q), g, atol=1e-9)))
        a1 = pr.angular_spectrum(f, wvl, dx, z1, Q=1)
        check('inverse', bool(np.allclose(pr.angular_spectrum(a1, wvl, dx, -z1, Q=1), f, atol=1e-8)))
        check('additive', bool(np.allclose(pr.angular_spectrum(a1, wvl, dx, z2, Q=1), pr.angular_spectrum(f, wvl, dx, z1 + z2, Q=1), atol=1e-8)))
        tf = np.exp(1j * rng.uniform(-3, 3, (m, n)))
        check('user-tf-energy', bool(np.isclose(E(pr.angular_spectrum(f, wvl, dx, z1, tf=tf)), E(f))))
    else:
        conf = get('prysm.conf.config')
        for prec in (32, 64):
            old = 64
            try:
                conf.precision = prec
                W = pr.Wavefront(f.astype(conf.precision_complex), 0.6328, 0.1, 'pupil')
                F = W.focus(100.0, Q=1)
                check('wf-focus-energy-%d' % prec, bool(np.isclose(E(F.data), E(f), rtol=1e-4 if prec == 32 else 1e-9)))
                back = F.unfocus(100.0, Q=1)
                check('wf-roundtrip-%d' % prec, bool(np.allclose(back.data, f, atol=1e-4 if prec == 32 else 1e-9)))
                # a distance of exactly zero (integer or float) is a distance: the field comes back unchanged
                for zero in (0, 0.0):
                    fz = W.free_space(zero, Q=1)
                    check('wf-free-space-zero-distance-is-identity-%d' % prec, bool(np.allclose(fz.data, W.data, atol=1e-4 if prec == 32 else 1e-12)))
                fs = W.free_space(10.0, Q=1)
                check('wf-free-space-energy-%d' % prec, bool(np.isclose(E(fs.data), E(f), rtol=1e-4 if prec == 32 else 1e-9)))
                # the methods at a padding factor other than their default
                fs2 = W.free_space(25.0, Q=2)
                check('wf-free-space-energy-Q2-%d' % prec, bool(np.isclose(E(fs2.data), E(f), rtol=1e-4 if prec == 32 else 1e-9)))
                back2 = fs2.free_space(-25.0, Q=1)
                g2 = ft.pad2d(f, Q=2)
                check('wf-free-space-inverse-Q2-%d' % prec, bool(back2.data.shape == g2.shape and np.allclose(back2.data, g2, atol=1e-4 if prec == 32 else 1e-8)))
                F2 = W.focus(100.0, Q=2)
                check('wf-focus-energy-Q2-%d' % prec, bool(np.isclose(E(F2.data), E(f), rtol=1e-4 if prec == 32 else 1e-9)))
            finally:
                conf.precision = old
