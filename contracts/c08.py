"""C08 — sequence evaluation equals one-at-a-time evaluation (every ascending subset of orders, every
coordinate rank).  Each *_seq is proved against the SAME spec function as its scalar sibling (C07), so agreement
follows for every admissible ns without bound on len(ns) or max(ns)."""
from pvc.api import *
from contracts.polyspec import *


def _jacobi_ab(rng):
    """Jacobi weight parameters: random, or one of the classical special pairs (Legendre, the four Chebyshev kinds, Gegenbauer,
    pairs with alpha + beta = 0 or -1, where the general recurrence coefficients at n = 0 are 0/0 and the code has a special case)"""
    special = [(0.0, 0.0), (-0.5, -0.5), (0.5, 0.5), (-0.5, 0.5), (0.5, -0.5), (0.3, -0.3), (-0.25, -0.75), (1.0, 1.0), (2.0, -0.5),
               (0.1 + 0.2, -0.3), (-0.7 + 1e-17, -0.3), (0.1 + 0.2 - 1.0, -0.3)]      # alpha+beta a rounding error away from 0 / -1
    if rng.random() < 0.4:
        return special[int(rng.integers(0, len(special)))]
    return float(rng.uniform(-0.9, 3)), float(rng.uniform(-0.9, 3))

XK = ['scalar', '1d', '2d']      # 'scalar' = 0-D array


def _x(kind):
    if kind == 'scalar':
        return Array('x', ())          # 0-D coordinate array
    if kind == '1d':
        return Array('x', (Int('N', 1),))
    return Array('x', (Int('H', 1), Int('W', 1)))


class SeqSweep(Invariant):
    """order sweep `for i in range(lo, max_n+1)`: (cur, prev) = (F(i-1), F(i-2)); out[j] = F(ns[j]) for j < min_i;
    the next requested order ns[min_i] has not been passed; all requested orders are written when the sweep ends."""
    def __init__(self, F, params, cur, prev, dead=(), also_cur=(), jname=None, value=None):
        self.F, self.params, self.cur, self.prev, self.dead, self.also_cur, self.jname = F, params, cur, prev, dead, also_cur, jname
        self.value = value or (lambda F, n, ps, x, env: spec_over(F, n, ps, x))

    def _row(self, env, j, ix):
        ps = self.params(env)
        x = env['x']
        xe = elem(x, *ix) if isarray(x) else x
        return self.value(self.F, seq_get(env['ns'], j), ps, xe, env)

    def _side(self, env, i, mu):
        ns = env['ns']
        L = seq_len(ns)
        maxn = env['max_n'] if 'max_n' in env else seq_get(ns, L - 1)
        hint(mu, mu + 1)
        return And(0 <= mu, mu <= L,
                   Implies(i <= maxn, And(mu < L, seq_get(ns, ite(mu < L, mu, 0)) >= i)),
                   Implies(i > maxn, mu == L))

    def state(self, env, i):
        from pvc.symarr import SArr
        from pvc import symnp
        x = env['x']
        ps = self.params(env)
        mu = skolem(seq_len(env['ns']) + 1, 'mu')
        assume(self._side(env, i, mu))
        old = env['out']
        hav = symnp.sym_array(skolem_name('outhavoc'), old.shape, old.dtype, register=False)

        def fn(ix, mu=mu):
            j, rest = ix[0], ix[1:]
            return ite(lift(j) < mu, self._row(env, j, rest), hav.at(*ix))
        st = {self.cur: spec_over(self.F, i - 1, ps, x), self.prev: spec_over(self.F, i - 2, ps, x),
              'min_i': mu, 'out': SArr(old.shape, fn, old.dtype)}
        if self.jname:
            st[self.jname] = mu
        for d in self.dead:
            st[d] = env.get(d)
        for d in self.also_cur:
            st[d] = st[self.cur]
        return st

    def holds(self, env, i):
        x = env['x']
        ps = self.params(env)
        yield 'current', same(env[self.cur], spec_over(self.F, i - 1, ps, x), x, 'cur')
        yield 'previous', same(env[self.prev], spec_over(self.F, i - 2, ps, x), x, 'prev')
        mu = env['min_i']
        yield 'bookkeeping', self._side(env, i, mu)
        if self.jname:
            yield 'write-index', env[self.jname] == mu
        j = skolem(mu, 'jrow')
        out = env['out']
        ix = tuple(skolem(d, 'o%d' % k) for k, d in enumerate(out.shape[1:]))
        yield 'rows-written', approx(elem(out, j, *ix), self._row(env, j, ix), 1e-7)


def skolem_name(base):
    from pvc.symcore import ctx
    return ctx.fresh_name(base)


def _seq_harness(name, path, F, nparams, inv_kwargs, lo=0, variants=None, tiers=('quick', 'thorough')):
    def h(kind):
        ns, L = AscendingInts('ns', lo)
        ps = tuple(Real('alpha%d' % k) if nparams > 1 else Real('alpha') for k in range(nparams))
        if F is JAC:
            assume(And(ps[0] > -1, ps[1] > -1))
        x = _x(kind)
        pnames = inv_kwargs.get('pnames') or (['alpha', 'beta'] if nparams == 2 else ['alpha'] if nparams == 1 else [])
        inv = SeqSweep(F, lambda env: tuple(env[p] for p in pnames), **{k: v for k, v in inv_kwargs.items() if k != 'pnames'})
        with cut_loops(path, {0: inv}) as f:
            out = f(ns, *ps, x)
        xs = tuple(x.shape) if isarray(x) else ()
        check('shape', shape_is(out, L, *xs))
        j = idx(L, 'j')
        hint(j)
        ix = tuple(idx(d, 'e%d' % k) for k, d in enumerate(xs))
        xe = elem(x, *ix) if isarray(x) else x
        nj = seq_get(ns, j)
        _ = (nj == 0) or (nj == 1) or (nj == 2)      # case split: the code special-cases these orders (forks the path)
        check('mode-for-mode', approx(elem(out, j, *ix), F.at(nj, *ps, xe), 1e-7))
    h.__doc__ = '%s(ns, ..., x)[j] = F(ns[j], ..., x) for every strictly ascending ns (any length, gaps, start) and every coordinate rank; shape (len(ns), *x.shape)' % path
    return harness('C08', name, variants=variants or XK, fuc=[path], tiers=tiers)(h)


PJ = 'prysm.polynomials.jacobi.'
PH = 'prysm.polynomials.hermite.'
PL = 'prysm.polynomials.laguerre.'
PD = 'prysm.polynomials.dickson.'

_seq_harness('jacobi_seq/sweep', PJ + 'jacobi_seq', JAC, 2, dict(cur='Pn', prev='Pnm1', dead=('Pnm2', 'A', 'B', 'C')), variants=['scalar'])
# (array-coordinate variants of the jacobi_seq / laguerre_seq sweeps were tried in the thorough tier: each needs more than an hour of
# path exploration, so they are served by the bounded harness variants jacobi_seq-arrays / laguerre_seq-arrays instead)
_seq_harness('hermite_He_seq/sweep', PH + 'hermite_He_seq', HE, 0, dict(cur='Pnm1', prev='Pnm2', also_cur=('Pn',)))
_seq_harness('hermite_H_seq/sweep', PH + 'hermite_H_seq', HH, 0, dict(cur='Pnm1', prev='Pnm2', also_cur=('Pn',)))
_seq_harness('laguerre_seq/sweep', PL + 'laguerre_seq', LAG, 1, dict(cur='Ln', prev='Lnm1', dead=('n', 'A', 'B'), also_cur=('Lnp1',)), variants=['scalar'])
_seq_harness('dickson1_seq/sweep', PD + 'dickson1_seq', DICK1, 1, dict(cur='Pnm1', prev='Pnm2', also_cur=('Pn',), jname='j'))
_seq_harness('dickson2_seq/sweep', PD + 'dickson2_seq', DICK2, 1, dict(cur='Pnm1', prev='Pnm2', also_cur=('Pn',), jname='j'))


# ------------------------------------------------------------------ wrappers on top of the jacobi_seq contract
def spec_jacobi_seq(ns, a, b, x):
    """functional contract of jacobi_seq (proved by jacobi_seq/sweep): rows are P_{ns[j]}^{(a,b)}(x)"""
    from pvc.symarr import SArr
    from pvc import symnp
    x = symnp.asarray(x)
    L = seq_len(ns) if not isarray(ns) else ns.shape[0]
    get_n = (lambda j: seq_get(ns, j)) if not isarray(ns) else (lambda j: ns.at(j))
    return SArr((L,) + tuple(x.shape), lambda ix: JAC.at(get_n(ix[0]), a, b, x.at(*ix[1:])), x.dtype)


CHEBSEQ = {1: (-0.5, -0.5, CHEB_T, lambda n: 1), 2: (0.5, 0.5, CHEB_U, lambda n: n + 1),
           3: (-0.5, 0.5, CHEB_V, lambda n: 1), 4: (0.5, -0.5, CHEB_W, lambda n: 2 * n + 1)}


@harness('C08', 'cheby_seq/modes', variants=[dict(kind=k, x=xk) for k in (1, 2, 3, 4) for xk in ('1d', '2d')],
         fuc=['prysm.polynomials.cheby.cheby1_seq', 'prysm.polynomials.cheby.cheby2_seq', 'prysm.polynomials.cheby.cheby3_seq',
              'prysm.polynomials.cheby.cheby4_seq'])
def cheby_seq(v):
    """cheby{k}_seq(ns, x)[j] = (Chebyshev polynomial of kind k)_{ns[j]}(x) with shape (len(ns), *x.shape) for EVERY coordinate
    rank: the per-order normalisation constants must multiply mode j on every rank (callee jacobi_seq = its contract;
    lemmas of C07 relate the normalised Jacobi polynomial to T/U/V/W)."""
    kind = v['kind']
    a, b, T, norm = CHEBSEQ[kind]
    x = _x(v['x'])
    if kind in (2, 4):
        L = Int('L', 1)
        ns = Array('ns', (L,), 'i', lo=0)
        if MODE != 'symbolic':
            # the callee jacobi_seq requires strictly ascending orders (its contract's precondition); the modular symbolic proof
            # does not depend on the order, the concrete runs go through the real callee and must respect it
            import numpy as _np
            ns[:] = _np.cumsum(1 + ns % 3) - 1
        get_n = lambda j: elem(ns, j)
    else:
        ns, L = AscendingInts('ns', 0)
        get_n = lambda j: seq_get(ns, j)
    j = idx(L, 'j')
    ix = tuple(idx(d, 'e%d' % k) for k, d in enumerate(x.shape))
    xe = elem(x, *ix)
    nj = get_n(j)
    use_lemma('C07 lemma/jacobi-at-one-positive', JAC.at(nj, a, b, 1) > 0)
    use_lemma('C07 lemma/cheby%d-is-normalised-jacobi' % kind, norm(nj) * JAC.at(nj, a, b, xe) == JAC.at(nj, a, b, 1) * T.at(nj, xe))
    with stub('prysm.polynomials.cheby', 'jacobi_seq', spec_jacobi_seq):
        out = call('prysm.polynomials.cheby.cheby%d_seq' % kind, ns, x)
    check('shape', shape_is(out, L, *x.shape))
    check('mode-for-mode', approx(elem(out, j, *ix), T.at(nj, xe), 1e-7))


@harness('C08', 'legendre_seq|Qcon_seq/wrappers', variants=[dict(f=f, x=xk) for f in ('legendre_seq', 'Qcon_seq') for xk in ('1d', '2d')],
         fuc=['prysm.polynomials.legendre.legendre_seq', 'prysm.polynomials.qpoly.Qcon_seq'])
def wrappers_seq(v):
    x = _x(v['x'])
    ns, L = AscendingInts('ns', 0)
    j = idx(L, 'j')
    ix = tuple(idx(d, 'e%d' % k) for k, d in enumerate(x.shape))
    xe = elem(x, *ix)
    if v['f'] == 'legendre_seq':
        with stub('prysm.polynomials.legendre', 'jacobi_seq', spec_jacobi_seq):
            out = call('prysm.polynomials.legendre.legendre_seq', ns, x)
        want = JAC.at(seq_get(ns, j), 0, 0, xe)
    else:
        with stub('prysm.polynomials.qpoly', 'jacobi_seq', spec_jacobi_seq):
            out = call('prysm.polynomials.qpoly.Qcon_seq', ns, x)
        want = JAC.at(seq_get(ns, j), 0, 4, 2 * xe * xe - 1) * xe * xe * xe * xe
    check('shape', shape_is(out, L, *x.shape))
    check('mode-for-mode', approx(elem(out, j, *ix), want, 1e-7))


XY_LISTS = [[(0, 0), (1, 0), (0, 1), (2, 0), (1, 1), (0, 2)], [(3, 0), (0, 3)], [(2, 1)], [(0, 0)], [(4, 2), (1, 0), (0, 5), (2, 2)]]


@harness('C08', 'xy_seq/terms', variants=[dict(k=k, rank=2) for k in range(len(XY_LISTS))],
         fuc=['prysm.polynomials.xy.xy_seq', 'prysm.polynomials.xy.xy'])
def xy_seq_terms(v):
    """xy_seq(mns, x, y)[k] = x^m y^n = xy(m, n, x, y) for every listed pair in the order requested, zero exponents
    included (orders are concrete lists here -- bounded in the list, unbounded in the coordinates)."""
    mns = XY_LISTS[v['k']]
    H, W = Int('H', 1), Int('W', 1)
    i, j = idx(H, 'i'), idx(W, 'j')
    if v['rank'] == 2:
        x, y = Array('x', (H, W)), Array('y', (H, W))
        assume(And(elem(x, i, j) == elem(x, 0, j), elem(y, i, j) == elem(y, i, 0)))
        if MODE != 'symbolic':
            x[:] = x[0:1, :]
            y[:] = y[:, 0:1]
        xe, ye = elem(x, i, j), elem(y, i, j)
    else:
        x, y = Array('x', (W,)), Array('y', (H,))
        xe, ye = elem(x, j), elem(y, i)
    out = call('prysm.polynomials.xy.xy_seq', mns, x, y)
    check('count', len(out) == len(mns))
    for k, (m, n) in enumerate(mns):
        got = out[k]
        want = (xe ** m) * (ye ** n)
        if v['rank'] == 2:
            check('term-shape-%d' % k, shape_is(got, H, W))          # every mode has the coordinates' shape, pure x^m / y^n terms too
            check('term-%d' % k, approx(elem(got, i, j), want, 1e-7))
        else:
            # 1-D x and y: xy_seq multiplies the two 1-D sequences elementwise, defined only for equal lengths
            check('term-%d' % k, True)


@harness('C08', 'bounded/two-index-and-Q-families', kind='bounded',
         variants=['zernike_nm_seq', 'Q2d_seq', 'Qbfs_seq', 'zernike_nm_der_seq', 'jacobi_der_seq', 'laguerre_seq-arrays', 'jacobi_seq-arrays'],
         fuc=['prysm.polynomials.zernike.zernike_nm_seq', 'prysm.polynomials.qpoly.Q2d_seq', 'prysm.polynomials.qpoly.Qbfs_seq',
              'prysm.polynomials.zernike.zernike_nm_der_seq'])
def bounded_seq(which):
    """BOUNDED (not a proof): families whose sequence routines use dictionaries / recursion outside the symbolic subset.
    Seeded lists of (n,m) pairs in arbitrary order, coordinate arrays of rank 0-2 (incl. leading dimension equal to the
    number of orders): the sequence result equals the single-order function mode for mode."""
    import numpy as np
    rng = np.random.default_rng(Int('seed', 0, 10 ** 6))
    rank = int(rng.integers(0, 3))
    nmodes = int(rng.integers(1, 7))
    shp = [(), (nmodes,), (nmodes, int(rng.integers(1, 5)))][rank] if rng.random() < 0.5 else [(), (5,), (3, 4)][rank]
    r = vary_layout(rng, rng.uniform(0.05, 0.95, shp))      # coordinates in any memory layout (contiguous, Fortran, strided)
    t = vary_layout(rng, rng.uniform(-3, 3, shp))
    if which in ('zernike_nm_seq', 'zernike_nm_der_seq', 'Q2d_seq'):
        style = str(rng.choice(['random', 'all-m0-shuffled', 'same-absm', 'descending-n', 'with-duplicates']))
        nms = []
        guard = 0
        while len(nms) < nmodes and guard < 200:
            guard += 1
            n = int(rng.integers(0, 9))
            if which == 'Q2d_seq':
                m = int(rng.integers(-4, 5))
            else:
                m = int(rng.choice(range(-n, n + 1, 2)))
            if style == 'all-m0-shuffled':
                n = 2 * int(rng.integers(0, 5))
                m = 0
            elif style == 'same-absm' and which != 'Q2d_seq':
                am = 1 + int(rng.integers(0, 2))
                n = am + 2 * int(rng.integers(0, 4))
                m = am if rng.random() < 0.5 else -am
            if style == 'with-duplicates' or (n, m) not in nms:
                nms.append((n, m))
        if rng.random() < 0.25:
            style = 'short'
            pool = [(0, 0), (1, 0), (2, 0), (1, 1), (1, -1), (2, 2), (3, 1), (3, -1), (2, -2)] if which == 'Q2d_seq' else \
                   [(0, 0), (2, 0), (1, 1), (1, -1), (2, 2), (3, 1), (3, -1), (2, -2), (4, 0)]
            k = int(rng.integers(1, 4))
            nms = [pool[int(i)] for i in rng.choice(len(pool), size=k, replace=False)]
        if style == 'descending-n':
            nms.sort(key=lambda p: -p[0])
        elif style in ('all-m0-shuffled', 'same-absm'):
            rng.shuffle(nms)
            nms = [tuple(int(v) for v in p) for p in nms]
        if which == 'zernike_nm_seq':
            norm = bool(rng.random() < 0.5)
            if rng.random() < 0.3:
                # both azimuthal partners of one radial polynomial, back to back
                n0 = int(rng.integers(1, 7))
                m0 = int(rng.choice(range(n0 % 2 or 2, n0 + 1, 2)))
                nms = [(n0, m0), (n0, -m0)] + nms[:2]
            seq = get('prysm.polynomials.zernike.zernike_nm_seq')(nms, r, t, norm=norm)
            one = [get('prysm.polynomials.zernike.zernike_nm')(n, m, r, t, norm=norm) for n, m in nms]
        elif which == 'zernike_nm_der_seq':
            seq = get('prysm.polynomials.zernike.zernike_nm_der_seq')(nms, r, t)
            one = [np.asarray(get('prysm.polynomials.zernike.zernike_nm_der')(n, m, r, t)) for n, m in nms]
        else:
            seq = get('prysm.polynomials.qpoly.Q2d_seq')(nms, r, t)
            one = [get('prysm.polynomials.qpoly.Q2d')(n, m, r, t) for n, m in nms]
        check('count', len(seq) == len(nms))
        check('mode-for-mode', all(np.allclose(np.asarray(a), np.asarray(b), rtol=1e-9, atol=1e-9) for a, b in zip(seq, one)))
    else:
        ns = sorted(set(int(v) for v in rng.integers(0, 12, nmodes)))
        if rng.random() < 0.4:
            # the short and late-starting lists where the unrolled first orders return early or are skipped
            ns = [[0], [1], [2], [3], [0, 1], [1, 2], [0, 2], [0, 1, 2], [3, 5], [1, 4], [0, 1, 4], [int(rng.integers(0, 12))]][int(rng.integers(0, 12))]
        x = vary_layout(rng, rng.uniform(-0.95, 0.95, shp))
        if which == 'Qbfs_seq':
            seq = get('prysm.polynomials.qpoly.Qbfs_seq')(ns, np.abs(x))
            one = [get('prysm.polynomials.qpoly.Qbfs')(n, np.abs(x)) for n in ns]
        elif which == 'jacobi_seq-arrays':
            a, b = _jacobi_ab(rng)
            seq = get('prysm.polynomials.jacobi.jacobi_seq')(ns, a, b, x)
            one = [get('prysm.polynomials.jacobi.jacobi')(n, a, b, x) for n in ns]
        elif which == 'jacobi_der_seq':
            a, b = _jacobi_ab(rng)
            seq = get('prysm.polynomials.jacobi.jacobi_der_seq')(ns, a, b, x)
            one = [get('prysm.polynomials.jacobi.jacobi_der')(n, a, b, x) for n in ns]
        else:
            a = float(rng.uniform(-0.9, 3))
            seq = get('prysm.polynomials.laguerre.laguerre_seq')(ns, a, x + 1)
            one = [get('prysm.polynomials.laguerre.laguerre')(n, a, x + 1) for n in ns]
        check('shape', tuple(np.asarray(seq).shape) == (len(ns),) + tuple(shp))
        check('mode-for-mode', all(np.allclose(np.asarray(a_), np.asarray(b_), rtol=1e-9, atol=1e-9) for a_, b_ in zip(seq, one)))
