"""C14 — writing then reading an instrument file returns the same map."""
from pvc.api import *


@harness('C14', 'bounded/write-read-roundtrip', kind='bounded',
         variants=['zygo-roundtrip', 'zygo-truncation', 'codev-roundtrip', 'codev-truncation', 'interferogram-save-load'],
         fuc=['prysm.io.write_zygo_dat', 'prysm.io.read_zygo_dat', 'prysm.io.read_zygo_metadata', 'prysm.io._zygo_metadata_helper',
              'prysm.io.write_codev_gridint', 'prysm.io.read_codev_gridint', 'prysm.interferogram.Interferogram.save_zygo_dat',
              'prysm.interferogram.Interferogram.from_zygo_dat'])
def roundtrip(which):
    """BOUNDED (binary packing, text formatting and tokenising are library behaviour outside the contract model): the real writer,
    then the real reader, on seeded height maps of every shape 1..7 x 1..8 (non-square, 1xN), value ranges (all-positive,
    all-negative, mixed, constant, tiny, large), NaN patterns, dx and wavelength; and EVERY truncation point of a written file's
    data block (stride 1 for small files): the reader must raise, or warn and mark the missing samples invalid."""
    import os
    import tempfile
    import warnings
    import numpy as np
    rng = np.random.default_rng(Int('seed', 0, 10 ** 6))
    io = get('prysm.io')
    H, W = int(rng.integers(1, 8)), int(rng.integers(1, 9))
    if which in ('codev-roundtrip', 'zygo-roundtrip') and rng.random() < 0.3:
        # larger maps whose sample count sits on either side of the text writer's line capacity (585 values): exact multiples,
        # one more, primes beyond it, counts with no divisor near it
        H, W = [(45, 13), (13, 45), (65, 9), (39, 30), (1, 585), (585, 1), (2, 293), (19, 31), (1, 587), (30, 39), (24, 25), (9, 130)][int(rng.integers(0, 12))]
    style = str(rng.choice(['mixed', 'positive', 'negative', 'constant', 'tiny', 'large', 'huge']))
    z = rng.standard_normal((H, W)) * 50
    if style == 'positive':
        z = abs(z) + 1
    elif style == 'negative':
        z = -abs(z) - 1
    elif style == 'constant':
        z = np.full((H, W), float(rng.uniform(-100, 100)))
    elif style == 'tiny':
        z = z * 1e-3
    elif style == 'large':
        z = z * 200
    elif style == 'huge':
        # millimetres to centimetres of departure, in nm; stays inside what both formats can hold (Zygo: int32 steps of
        # lambda/32768, i.e. |z| below about 4e7 nm)
        z = np.clip(z, -200, 200) * float(10 ** rng.uniform(3.5, 5))
    nanmask = rng.random((H, W)) < 0.25 if rng.random() < 0.7 else np.zeros((H, W), bool)
    if nanmask.all():
        nanmask[0, 0] = False
    z = z.copy()
    z[nanmask] = np.nan
    # the same map in every memory layout a caller may hold it in: C order, Fortran order, a transposed view
    lay = int(rng.integers(0, 3))
    if lay == 1:
        z = np.asfortranarray(z)
    elif lay == 2:
        z = np.ascontiguousarray(z.T).T
    dx = float(rng.uniform(0.01, 2.0)) if rng.random() < 0.85 else 0.0          # 0 = the documented "no lateral calibration"
    # catalogue lines and arbitrary wavelengths (as many significant digits as a float has)
    wvl = float(rng.choice([0.6328, 0.55, 1.064])) if rng.random() < 0.5 else float(rng.uniform(0.3, 11))
    tmp = tempfile.mkdtemp(prefix='pvc_c14_')
    try:
        if which in ('zygo-roundtrip', 'zygo-truncation', 'interferogram-save-load'):
            path = os.path.join(tmp, 'map.dat')
            if which == 'interferogram-save-load':
                I = get('prysm.interferogram.Interferogram')
                I(z.copy(order='K'), dx=dx, wavelength=wvl).save_zygo_dat(path)
                back = I.from_zygo_dat(path)
                got, gdx, gw = back.data, back.dx, back.wavelength
            else:
                io.write_zygo_dat(path, z.copy(order='K'), dx, wavelength=wvl)
                if which == 'zygo-roundtrip':
                    d = io.read_zygo_dat(path)
                    got = d['phase']
                    gdx = d['meta']['lateral_resolution'] * 1e3
                    gw = d['meta']['wavelength'] * 1e6
            if which != 'zygo-truncation':
                # one quantisation step of the format (nm) + the float32 rounding of the wavelength header field, which scales every value
                q = wvl * 1e3 / 32768 * 1.0001 + 1e-9 + 2.5e-7 * float(np.nanmax(abs(z)))
                check('shape', tuple(got.shape) == (H, W))
                check('invalid-samples-in-place', bool((np.isnan(got) == nanmask).all()) if tuple(got.shape) == (H, W) else False)
                ok = tuple(got.shape) == (H, W) and bool(np.allclose(got[~nanmask], z[~nanmask], atol=q, rtol=0))
                check('values-and-orientation', ok)
                check('dx', bool(np.isclose(gdx, dx, rtol=1e-6, atol=0)))
                check('wavelength', bool(np.isclose(gw, wvl, rtol=1e-6)))
            else:
                raw = open(path, 'rb').read()
                hdr = len(raw) - H * W * 4
                good = True
                for cut in range(hdr, len(raw)):
                    p2 = os.path.join(tmp, 'cut.dat')
                    open(p2, 'wb').write(raw[:cut])
                    with warnings.catch_warnings(record=True) as wlist:
                        warnings.simplefilter('always')
                        try:
                            d = io.read_zygo_dat(p2)
                        except Exception:
                            continue
                    ph = d['phase']
                    nmiss = -(-(len(raw) - cut) // 4)
                    # the writer stores rows bottom-up: compare in raw (file) order
                    full = io.read_zygo_dat(path)['phase']
                    warned = len(wlist) > 0
                    lost_marked = ph.shape == (H, W) and int(np.isnan(ph).sum()) >= int(np.isnan(full).sum()) + 0 and \
                        int(np.isnan(ph).sum()) >= min(nmiss, H * W) - int(np.isnan(full).sum())
                    kept_ok = ph.shape == (H, W) and bool(np.allclose(ph[~np.isnan(ph)], full[~np.isnan(ph)]))
                    good &= bool(warned and lost_marked and kept_ok)
                check('truncated-file-rejected-or-marked-invalid', good)
        else:
            path = os.path.join(tmp, 'map.int')
            io.write_codev_gridint(z.copy(order='K'), path)
            if which == 'codev-roundtrip':
                got, meta = io.read_codev_gridint(path)
                fin = ~nanmask
                span = max(abs(np.nanmin(z)), abs(np.nanmax(z)), 1e-12)
                q = span / 32767 * 0.51 + 1e-9
                check('shape', tuple(got.shape) == (H, W))
                check('invalid-samples-in-place', tuple(got.shape) == (H, W) and bool((np.isnan(got) == nanmask).all()))
                check('values-and-orientation', tuple(got.shape) == (H, W) and bool(np.allclose(got[fin], z[fin], atol=q, rtol=0)))
            else:
                txt = open(path).read()
                body = txt.index('\n', txt.index('\n') + 1) + 1
                good, good_last = True, True
                full, _ = io.read_codev_gridint(path)
                ntok = len(txt[body:].split())
                for cut in range(body + 1, len(txt) - 1, max(1, (len(txt) - body) // 80)):
                    p2 = os.path.join(tmp, 'cut.int')
                    open(p2, 'w').write(txt[:cut])
                    with warnings.catch_warnings(record=True) as wlist:
                        warnings.simplefilter('always')
                        try:
                            a, _ = io.read_codev_gridint(p2)
                        except Exception:
                            continue
                    # not rejected: it must not be a full-size array of plausible numbers
                    same = a.shape == full.shape and bool(np.array_equal(np.isnan(a), np.isnan(full))) and \
                        bool(np.allclose(a[~np.isnan(a)], full[~np.isnan(a)]))
                    okc = bool(same or (len(wlist) > 0 and int(np.isnan(a).sum()) > int(np.isnan(full).sum())))
                    if len(txt[body:cut].split()) == ntok:
                        good_last &= okc          # the cut fell inside the final number: every sample is still "present"
                    else:
                        good &= okc
                check('truncation-dropping-samples-rejected-or-marked', good)
                check('truncation-inside-last-number', good_last)
    finally:
        for fn in os.listdir(tmp):
            os.remove(os.path.join(tmp, fn))
        os.rmdir(tmp)
