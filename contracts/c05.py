"""C05 — fixed-sampling results depend on the physical field, not its array embedding.

Deductive core: the relations that make the result independent of the embedding are relations between the matrix-DFT KERNELS
that the fixed-sampling routines build for two embeddings of the same field; together with C01 (dft2 = Eout @ f @ Ein for its
own key), C03 (Q N dx_in dx_out = lambda f) and C04 (pad2d maps origin to origin, zero elsewhere) they give the property for
method='mdft' (linearity in the field is immediate from the C01 triple-product form, a sum of products linear in f).  The whole-transform statements (both methods, masks, Babinet) are the bounded harness below."""
from pvc.api import *

FT = 'prysm.fttools.'
PR = 'prysm.propagation.'


def _bases(fwd, shp, Q, out, shift):
    ex = get(FT + 'MatrixDFTExecutor')()
    key = ex._key(samples_in=shp, Q=Q, samples_out=out, shift=shift, fwd=fwd)
    ex._setup_bases(key)
    return ex.Eout[key], ex.Ein[key]


@harness('C05', 'mdft/kernel-embedding-invariance', variants=['focus', 'unfocus'],
         fuc=['prysm.fttools.MatrixDFTExecutor._setup_bases', 'prysm.fttools.MatrixDFTExecutor._key', 'prysm.propagation.Q_for_sampling',
              'prysm.propagation.focus_fixed_sampling', 'prysm.propagation.unfocus_fixed_sampling'])
def kernel_embedding(which):
    """For a field of shape (m, n) and its zero-pad embedding of shape (m2 >= m, n2 >= n) at the same sample spacing, with the
    per-axis Q that focus_/unfocus_fixed_sampling compute from the array shape (the real Q_for_sampling is called with the
    arguments those routines pass), the kernel entry that multiplies input sample (y, x) in the small array equals the entry
    that multiplies the same physical sample (y + m2//2 - m//2, x + n2//2 - n//2) in the embedded array, for every output
    sample, output size and shift: the transform of the embedded field is the transform of the field."""
    fwd = which == 'focus'
    m, n, m2, n2 = Int('m', 1), Int('n', 1), Int('m2', 1), Int('n2', 1)
    M, N = Int('M', 1), Int('N', 1)
    assume(And(m2 >= m, n2 >= n))
    dx, odx, efl, wvl = Real('dx', pos=True), Real('odx', pos=True), Real('efl', pos=True), Real('wvl', pos=True)
    sx, sy = Real('sx'), Real('sy')
    Qf = get(PR + 'Q_for_sampling')
    if fwd:
        # focus_fixed_sampling: Q_axis = Q_for_sampling(input_diameter=s * input_dx, prop_dist, wavelength, output_dx)
        Q1 = tuple(Qf(input_diameter=s * dx, prop_dist=efl, wavelength=wvl, output_dx=odx) for s in (m, n))
        Q2 = tuple(Qf(input_diameter=s * dx, prop_dist=efl, wavelength=wvl, output_dx=odx) for s in (m2, n2))
    else:
        # unfocus_fixed_sampling: Q_axis = Q_for_sampling(output_dx * s_out, prop_dist, wavelength, input_dx) / (s_in / s_out)
        Q1 = tuple(Qf(input_diameter=odx * so, prop_dist=efl, wavelength=wvl, output_dx=dx) / (si / so) for si, so in ((m, M), (n, N)))
        Q2 = tuple(Qf(input_diameter=odx * so, prop_dist=efl, wavelength=wvl, output_dx=dx) / (si / so) for si, so in ((m2, M), (n2, N)))
    Eo1, Ei1 = _bases(fwd, (m, n), Q1, (M, N), (sx, sy))
    Eo2, Ei2 = _bases(fwd, (m2, n2), Q2, (M, N), (sx, sy))
    v, u, y, x = idx(M, 'v'), idx(N, 'u'), idx(m, 'y'), idx(n, 'x')
    oy, ox = m2 // 2 - m // 2, n2 // 2 - n // 2
    check('same-physical-sample-same-kernel-rows', approx(elem(Eo2, v, y + oy), elem(Eo1, v, y), 1e-9))
    check('same-physical-sample-same-kernel-cols', approx(elem(Ei2, x + ox, u), elem(Ei1, x, u), 1e-9))


@harness('C05', 'mdft/kernel-transposition', variants=[True, False], fuc=['prysm.fttools.MatrixDFTExecutor._setup_bases'])
def kernel_transposition(fwd):
    """Exchanging the roles of the axes (shape, Q, output size and shift all swapped per axis) transposes the kernel:
    Eout'[u, x] = Ein[x, u] and Ein'[y, v] = Eout[v, y], so the transform of the transposed field is the transposed transform."""
    m, n, M, N = Int('m', 1), Int('n', 1), Int('M', 1), Int('N', 1)
    Qy, Qx = Real('Qy', pos=True), Real('Qx', pos=True)
    sx, sy = Real('sx'), Real('sy')
    Eo, Ei = _bases(fwd, (m, n), (Qy, Qx), (M, N), (sx, sy))
    Eo_t, Ei_t = _bases(fwd, (n, m), (Qx, Qy), (N, M), (sy, sx))
    v, u, y, x = idx(M, 'v'), idx(N, 'u'), idx(m, 'y'), idx(n, 'x')
    check('shapes', And(shape_is(Eo_t, N, n), shape_is(Ei_t, m, M)))
    check('kernel-of-transposed-problem-is-transposed', approx(elem(Eo_t, u, x) * elem(Ei_t, y, v), elem(Eo, v, y) * elem(Ei, x, u), 1e-9))


@harness('C05', 'bounded/embedding-transpose-masks', kind='bounded',
         variants=['linear', 'embedding-invariance', 'transpose', 'all-pass-mask', 'mask-additivity-babinet'],
         fuc=['prysm.propagation.focus_fixed_sampling', 'prysm.propagation.unfocus_fixed_sampling', 'prysm.propagation.to_fpm_and_back',
              'prysm.propagation.Wavefront.to_fpm_and_back', 'prysm.propagation.Wavefront.babinet', 'prysm.fttools.pad2d'])
def embedding(which):
    """BOUNDED (the statements are metamorphic relations over whole transforms; the kernels involved are proved in C01/C03/C04):
    seeded complex fields of shapes 2..8 per axis, zero-pad embeddings of any parity, per-axis output sizes and shifts, both
    methods, both directions; masks real and complex, with mask shifts."""
    import numpy as np
    rng = np.random.default_rng(Int('seed', 0, 10 ** 6))
    pr = get('prysm.propagation')
    ft = get('prysm.fttools')
    m, n = int(rng.integers(2, 9)), int(rng.integers(2, 9))
    f = vary_layout(rng, rng.standard_normal((m, n)) + 1j * rng.standard_normal((m, n)))      # any memory layout
    g = vary_layout(rng, rng.standard_normal((m, n)) + 1j * rng.standard_normal((m, n)))
    dx, wvl, efl = float(rng.uniform(0.1, 1.0)), float(rng.uniform(0.4, 1.0)), float(rng.uniform(50, 300))
    odx = float(rng.uniform(0.3, 3.0)) * wvl * efl / (max(m, n) * dx) / 2
    S = (int(rng.integers(3, 12)), int(rng.integers(3, 12)))
    shift = (0, 0) if rng.random() < 0.4 else (float(rng.uniform(-3, 3)) * odx, float(rng.uniform(-3, 3)) * odx)
    tol = dict(rtol=1e-8, atol=1e-9)
    for method in ('mdft', 'czt'):
        fwd = lambda a, dxi=dx, S=S, shift=shift: pr.focus_fixed_sampling(a, dxi, efl, wvl, odx, S, shift=shift, method=method)
        # unfocus takes its shift in units of ITS output plane (dx); a few samples there, as for the forward direction
        bshift = (shift[0] / odx * dx, shift[1] / odx * dx)
        bwd = lambda a, S=S, shift=bshift: pr.unfocus_fixed_sampling(a, odx, efl, wvl, dx, S, shift=shift, method=method)
        if which == 'linear':
            a, b = complex(rng.standard_normal(), rng.standard_normal()), complex(rng.standard_normal(), rng.standard_normal())
            check('focus-linear-' + method, bool(np.allclose(fwd(a * f + b * g), a * fwd(f) + b * fwd(g), **tol)))
            check('unfocus-linear-' + method, bool(np.allclose(bwd(a * f + b * g), a * bwd(f) + b * bwd(g), **tol)))
            # linearity across the real / complex container boundary: a real-dtype field is the same physical field as its complex cast
            fr, fi = f.real.copy(), f.imag.copy()
            check('focus-real-dtype-' + method, bool(np.allclose(fwd(fr), fwd(fr + 0j), **tol) and np.allclose(fwd(fr) + 1j * fwd(fi), fwd(f), **tol)))
            check('unfocus-real-dtype-' + method, bool(np.allclose(bwd(fr), bwd(fr + 0j), **tol) and np.allclose(bwd(fr) + 1j * bwd(fi), bwd(f), **tol)))
        elif which == 'embedding-invariance':
            if m == n and rng.random() < 0.5:
                # the critically sampled, same-size case (Q = 1 on both axes, output grid = input grid): embedding must still not matter
                odx_c = wvl * efl / (n * dx)
                sh_c = (float(rng.uniform(-3, 3)) * odx_c, float(rng.uniform(-3, 3)) * odx_c)
                bsh_c = (sh_c[0] / odx_c * dx, sh_c[1] / odx_c * dx)
                fpad = ft.pad2d(f, out_shape=(m + int(rng.integers(1, 6)), n + int(rng.integers(1, 6))))
                fw = lambda a_: pr.focus_fixed_sampling(a_, dx, efl, wvl, odx_c, (m, n), shift=sh_c, method=method)
                bw = lambda a_: pr.unfocus_fixed_sampling(a_, odx_c, efl, wvl, dx, (m, n), shift=bsh_c, method=method)
                check('focus-embedding-critical-sampling-' + method, bool(np.allclose(fw(fpad), fw(f), **tol)))
                check('unfocus-embedding-critical-sampling-' + method, bool(np.allclose(bw(fpad), bw(f), **tol)))
            big = (m + int(rng.integers(0, 6)), n + int(rng.integers(0, 6)))
            fp = ft.pad2d(f, out_shape=big)
            check('focus-embedding-' + method, bool(np.allclose(fwd(fp), fwd(f), **tol)))
            check('unfocus-embedding-' + method, bool(np.allclose(bwd(fp), bwd(f), **tol)))
        elif which == 'transpose':
            if S[0] == S[1] or rng.random() < 0.3:
                # the scalar output-size convention must mean the same square grid as the tuple
                S = (S[0], S[0])
                check('focus-scalar-size-' + method, bool(np.allclose(pr.focus_fixed_sampling(f, dx, efl, wvl, odx, S[0], shift=shift, method=method), fwd(f, S=S), **tol)))
                check('unfocus-scalar-size-' + method, bool(np.allclose(pr.unfocus_fixed_sampling(f, odx, efl, wvl, dx, S[0], shift=bshift, method=method), bwd(f, S=S), **tol)))
            St, sht = (S[1], S[0]), (shift[1], shift[0])
            check('focus-transpose-' + method, bool(np.allclose(fwd(f.T, S=St, shift=sht), fwd(f, S=S).T, **tol)))
            check('unfocus-transpose-' + method, bool(np.allclose(bwd(f.T, S=St, shift=(bshift[1], bshift[0])), bwd(f, S=S).T, **tol)))
        elif which == 'all-pass-mask':
            # a mask that transmits everything over the whole band: N_fpm dx_fpm = lambda f / dx on each axis
            q = int(rng.integers(1, 3))
            # the band lambda f / dx is the same on both axes whatever the array shape: a square mask of max(m, n) q samples at
            # dx_fpm = lambda f / (dx max(m, n) q) spans it on both, with at least one mask sample per resolution element
            Nf = max(m, n) * q
            fpm_dx = wvl * efl / (dx * Nf)
            ones = np.ones((Nf, Nf))
            back = pr.to_fpm_and_back(f, dx, efl, wvl, ones, fpm_dx, method=method)
            check('all-pass-returns-field-' + method, bool(np.allclose(back, f, atol=1e-7)))
            sh = (float(rng.integers(1, 4)) * fpm_dx, float(rng.integers(-3, 0)) * fpm_dx)
            back_s = pr.to_fpm_and_back(f, dx, efl, wvl, ones, fpm_dx, method=method, shift=sh)
            check('all-pass-with-mask-shift-' + method, bool(np.allclose(abs(back_s), abs(f), atol=1e-7)))
        else:
            fpm_dx = odx
            m1 = rng.random(S) * np.exp(1j * rng.uniform(-1, 1, S)) if rng.random() < 0.5 else rng.random(S)
            m2 = rng.random(S)
            T = lambda mask: pr.to_fpm_and_back(f, dx, efl, wvl, mask, fpm_dx, method=method, shift=shift)
            check('mask-additive-' + method, bool(np.allclose(T(m1 + m2), T(m1) + T(m2), **tol)))
            check('babinet-complement-' + method, bool(np.allclose(T(m1) + T(1 - m1), T(np.ones(S)), **tol)))
            wf = pr.Wavefront(f, wvl, dx, 'pupil')
            bab = wf.babinet(efl, None, m2, fpm_dx=fpm_dx, method=method)
            direct = f - pr.to_fpm_and_back(f, dx, efl, wvl, 1 - m2, fpm_dx, method=method)
            check('Wavefront.babinet-' + method, bool(np.allclose(bab.data, direct, **tol)))
