"""C05 — fixed-sampling results depend on the physical field, not its array embedding."""
from pvc.api import *


@harness('C05', 'bounded/embedding-transpose-masks', kind='bounded',
         variants=['linear', 'embedding-invariance', 'transpose', 'all-pass-mask', 'mask-additivity-babinet'],
         fuc=['prysm.propagation.focus_fixed_sampling', 'prysm.propagation.unfocus_fixed_sampling', 'prysm.propagation.to_fpm_and_back',
              'prysm.propagation.Wavefront.to_fpm_and_back', 'prysm.propagation.Wavefront.babinet', 'prysm.fttools.pad2d'])
def embedding(which):
    """BOUNDED (the statements are metamorphic relations over whole transforms; the kernels involved are proved in C01/C03/C04):
    seeded complex fields of shapes 2..8 per axis, zero-pad embeddings of any parity, per-axis output sizes and shifts, both
    methods, both directions; masks real and complex, with mask shifts."""
    import numpy as np
    rng = np.random.default_rng(Int('seed', 0, 10 ** 6))
    pr = get('prysm.propagation')
    ft = get('prysm.fttools')
    m, n = int(rng.integers(2, 9)), int(rng.integers(2, 9))
    f = rng.standard_normal((m, n)) + 1j * rng.standard_normal((m, n))
    g = rng.standard_normal((m, n)) + 1j * rng.standard_normal((m, n))
    dx, wvl, efl = float(rng.uniform(0.1, 1.0)), float(rng.uniform(0.4, 1.0)), float(rng.uniform(50, 300))
    odx = float(rng.uniform(0.3, 3.0)) * wvl * efl / (max(m, n) * dx) / 2
    S = (int(rng.integers(3, 12)), int(rng.integers(3, 12)))
    shift = (0, 0) if rng.random() < 0.4 else (float(rng.uniform(-3, 3)) * odx, float(rng.uniform(-3, 3)) * odx)
    tol = dict(rtol=1e-8, atol=1e-9)
    for method in ('mdft', 'czt'):
        fwd = lambda a, dxi=dx, S=S, shift=shift: pr.focus_fixed_sampling(a, dxi, efl, wvl, odx, S, shift=shift, method=method)
        # unfocus takes its shift in units of ITS output plane (dx); a few samples there, as for the forward direction
        bshift = (shift[0] / odx * dx, shift[1] / odx * dx)
        bwd = lambda a, S=S, shift=bshift: pr.unfocus_fixed_sampling(a, odx, efl, wvl, dx, S, shift=shift, method=method)
        if which == 'linear':
            a, b = complex(rng.standard_normal(), rng.standard_normal()), complex(rng.standard_normal(), rng.standard_normal())
            check('focus-linear-' + method, bool(np.allclose(fwd(a * f + b * g), a * fwd(f) + b * fwd(g), **tol)))
            check('unfocus-linear-' + method, bool(np.allclose(bwd(a * f + b * g), a * bwd(f) + b * bwd(g), **tol)))
        elif which == 'embedding-invariance':
            big = (m + int(rng.integers(0, 6)), n + int(rng.integers(0, 6)))
            fp = ft.pad2d(f, out_shape=big)
            check('focus-embedding-' + method, bool(np.allclose(fwd(fp), fwd(f), **tol)))
            check('unfocus-embedding-' + method, bool(np.allclose(bwd(fp), bwd(f), **tol)))
        elif which == 'transpose':
            St, sht = (S[1], S[0]), (shift[1], shift[0])
            check('focus-transpose-' + method, bool(np.allclose(fwd(f.T, S=St, shift=sht), fwd(f).T, **tol)))
            check('unfocus-transpose-' + method, bool(np.allclose(bwd(f.T, S=St, shift=(bshift[1], bshift[0])), bwd(f).T, **tol)))
        elif which == 'all-pass-mask':
            # a mask that transmits everything over the whole band: N_fpm dx_fpm = lambda f / dx on each axis
            q = int(rng.integers(1, 3))
            fpm_shape = (m * q, n * q)
            fpm_dx = wvl * efl / (dx * n * q)
            if m != n:
                fpm_shape = (n * q, n * q)          # square band sampling; rows of the field see Q_rows = n q / m
            ones = np.ones(fpm_shape)
            back = pr.to_fpm_and_back(f, dx, efl, wvl, ones, fpm_dx, method=method)
            if m == n:
                check('all-pass-returns-field-' + method, bool(np.allclose(back, f, atol=1e-7)))
                sh = (float(rng.integers(1, 4)) * fpm_dx, float(rng.integers(-3, 0)) * fpm_dx)
                back_s = pr.to_fpm_and_back(f, dx, efl, wvl, ones, fpm_dx, method=method, shift=sh)
                check('all-pass-with-mask-shift-' + method, bool(np.allclose(abs(back_s), abs(f), atol=1e-7)))
        else:
            fpm_dx = odx
            m1 = rng.random(S) * np.exp(1j * rng.uniform(-1, 1, S)) if rng.random() < 0.5 else rng.random(S)
            m2 = rng.random(S)
            T = lambda mask: pr.to_fpm_and_back(f, dx, efl, wvl, mask, fpm_dx, method=method, shift=shift)
            check('mask-additive-' + method, bool(np.allclose(T(m1 + m2), T(m1) + T(m2), **tol)))
            check('babinet-complement-' + method, bool(np.allclose(T(m1) + T(1 - m1), T(np.ones(S)), **tol)))
            wf = pr.Wavefront(f, wvl, dx, 'pupil')
            bab = wf.babinet(efl, None, m2, fpm_dx=fpm_dx, method=method)
            direct = f - pr.to_fpm_and_back(f, dx, efl, wvl, 1 - m2, fpm_dx, method=method)
            check('Wavefront.babinet-' + method, bool(np.allclose(bab.data, direct, **tol)))
