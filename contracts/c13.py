"""C13 — PSD is power-normalised and band-limited RMS adds up."""
from pvc.api import *

IF = 'prysm.interferogram.'


@harness('C13', 'psd/bins-axes-and-scale', fuc=['prysm.interferogram.psd', 'prysm.interferogram.make_window', 'prysm.fttools.forward_ft_unit',
                                               'prysm.coordinates.broadcast_1d_to_2d'])
def psd_bins():
    """MODULAR on the library transform: with F = fft2(.) of whatever psd hands to fft2 (an arbitrary complex array in the
    symbolic run, the real transform in the replay), for every shape (odd/even, non-square), spacing and user window:
    psd transforms the windowed height (origin-rolled by ifftshift, which only changes the phase of F); psd[i,j] =
    |F[(i - m//2) mod m, (j - n//2) mod n]|^2 / (sum(window^2) / dx^2) - the GH_FFT power scaling with DFT bin k stored at index
    k + n//2; and the returned axes are (j - n//2)/(n dx), (i - m//2)/(m dx), the frequency numpy's fftfreq assigns to exactly
    that bin: the zero-frequency term sits where both axes are zero, for either parity."""
    m, n = Int('m', 1), Int('n', 1)
    h, w = Array('h', (m, n)), Array('w', (m, n))
    dx = Real('dx', pos=True)
    i, j = idx(m, 'i'), idx(n, 'j')
    seen = {}
    if MODE == 'symbolic':
        from pvc import symnp
        F = Array('F', (m, n), 'c')
        old = symnp.fft.__dict__.get('fft2')

        def fake(a, *args, **kw):
            seen['arg'] = a
            return F
        symnp.fft.fft2 = fake
        try:
            ux, uy, p = call(IF + 'psd', h, dx, window=w)
        finally:
            if old is None:
                del symnp.fft.fft2
            else:
                symnp.fft.fft2 = old
        freq = lambda N, k: elem(symnp.fft.fftfreq(N, dx), k)
    else:
        import numpy as np
        assume(bool((w * w).sum() > 1e-6))
        ux, uy, p = call(IF + 'psd', h, dx, window=w)
        seen['arg'] = np.fft.ifftshift(h * w)
        F = np.fft.fft2(seen['arg'])
        freq = lambda N, k: np.fft.fftfreq(N, dx)[k]
    fs = 1 / dx
    coef = sum_value(sigma(m, lambda y: sigma(n, lambda x: elem(w, y, x) * elem(w, y, x))) * fs * fs)     # GH_FFT: S2 fs^2
    if MODE == 'symbolic':
        assume(coef != 0)
    hw = lambda a, b: elem(h, a, b) * elem(w, a, b)
    # a cyclic roll of the input only changes the phase of F: no roll, ifftshift and fftshift are all acceptable
    check('transforms-the-windowed-height', Or(approx(elem(seen['arg'], i, j), hw(i, j), 1e-9),
                                               approx(elem(seen['arg'], i, j), hw((i + m // 2) % m, (j + n // 2) % n), 1e-9),
                                               approx(elem(seen['arg'], i, j), hw((i - m // 2) % m, (j - n // 2) % n), 1e-9)))
    check('shape', shape_is(p, m, n))
    bi, bj = (i - m // 2) % m, (j - n // 2) % n
    check('bin-at-centred-index-with-power-scaling', approx(elem(p, i, j) * coef, abs2(elem(F, bi, bj)), 1e-7))
    check('x-axis-is-the-frequency-of-that-bin', And(approx(elem(ux, 0, j), (j - n // 2) / (n * dx), 1e-9), approx(freq(n, bj), elem(ux, 0, j), 1e-9)))
    check('y-axis-is-the-frequency-of-that-bin', And(approx(elem(uy, i, 0), (i - m // 2) / (m * dx), 1e-9), approx(freq(m, bi), elem(uy, i, 0), 1e-9)))
    check('zero-frequency-where-the-axes-are-zero', And(elem(ux, 0, n // 2) == 0, elem(uy, m // 2, 0) == 0))


@harness('C13', 'bounded/psd-normalisation-and-bands', kind='bounded',
         variants=['parseval', 'axes-and-alignment', 'band-algebra', 'full-band', 'synthetic-surface-rms', 'interferogram-methods'],
         fuc=['prysm.interferogram.psd', 'prysm.interferogram.make_window', 'prysm.interferogram.bandlimited_rms',
              'prysm.interferogram.render_synthetic_surface', 'prysm.interferogram.Interferogram.psd',
              'prysm.interferogram.Interferogram.bandlimited_rms', 'prysm.fttools.forward_ft_unit'])
def psd_checks(which):
    """BOUNDED (Parseval for scipy.fft is a library theorem; the trapezoid integration and the random synthesis are outside the
    contract model): seeded real height maps of every shape 3..12 per axis (odd/even, non-square), dx, named / automatic / user
    windows, band edges as periods or frequencies; runs on whatever numpy is installed (the routine must not use removed API)."""
    import numpy as np
    rng = np.random.default_rng(Int('seed', 0, 10 ** 6))
    I = get('prysm.interferogram')
    H, W = int(rng.integers(3, 13)), int(rng.integers(3, 13))
    dx = float(rng.uniform(0.05, 2.0))
    z = vary_layout(rng, rng.standard_normal((H, W)))      # any memory layout
    wname = [None, 'hann', 'welch', 'user', 'user-bool', 'user-uint8'][int(rng.integers(0, 6))]
    win = rng.random((H, W)) + 0.1 if wname == 'user' else wname
    if wname == 'user-bool':
        win = rng.random((H, W)) < 0.8
        win[H // 2, W // 2] = True
    elif wname == 'user-uint8':
        win = (rng.random((H, W)) < 0.8).astype(np.uint8)
        win[H // 2, W // 2] = 1
    if rng.random() < 0.5:
        z = z + float(rng.uniform(-20, 20))          # maps with a non-zero mean (power at zero frequency)
    if which == 'parseval':
        if rng.random() < 0.4:
            z = z.copy()
            z[rng.random((H, W)) < 0.3] = 0.0          # exact zeros in the map (zero-filled aperture, dead pixels) are samples like any other
        ux, uy, p = I.psd(z, dx, win)
        w = np.asarray(I.make_window(z, dx, win), dtype=float)
        check('shape', p.shape == (H, W) and ux.shape == (H, W) and uy.shape == (H, W))
        lhs = p.sum() * (1 / (H * dx)) * (1 / (W * dx))
        rhs = ((z * w) ** 2).sum() / (w ** 2).sum()
        check('integrates-to-window-weighted-mean-square', bool(np.isclose(lhs, rhs, rtol=1e-9)))
    elif which == 'axes-and-alignment':
        ux, uy, p = I.psd(z, dx, 'hann')
        i, j = int(rng.integers(0, H)), int(rng.integers(0, W))
        check('ux', bool(np.isclose(ux[i, j], (j - W // 2) / (W * dx))))
        check('uy', bool(np.isclose(uy[i, j], (i - H // 2) / (H * dx))))
        # alignment of the spectrum with its axes: a constant map has all its power at ux = uy = 0,
        # a cosine of k cycles across the width at ux = +-k/(W dx)
        ones = np.ones((H, W))
        _, _, pc = I.psd(ones, dx, ones)
        iy, ix = np.unravel_index(np.argmax(pc), pc.shape)
        check('dc-power-at-zero-frequency', bool(np.isclose(ux[iy, ix], 0) and np.isclose(uy[iy, ix], 0)))
        k = int(rng.integers(1, max(2, (W - 1) // 2 + 1)))
        xs = np.arange(W)
        cosmap = np.cos(2 * np.pi * k * xs / W)[None, :] * np.ones((H, 1))
        _, _, pk = I.psd(cosmap, dx, ones)
        iy, ix = np.unravel_index(np.argmax(pk), pk.shape)
        check('cosine-power-at-its-frequency', bool(np.isclose(abs(ux[iy, ix]), k / (W * dx)) and np.isclose(uy[iy, ix], 0)))
    elif which in ('band-algebra', 'full-band'):
        ux, uy, p = I.psd(z, dx, 'hann')
        r = np.hypot(ux, uy)
        rs = np.unique(np.round(r.ravel(), 12))
        if which == 'band-algebra':
            if len(rs) < 6:
                raise PathAbort('too few radii')
            # edges strictly between sample radii (no sample lies on a shared boundary)
            cuts = sorted(rng.choice(len(rs) - 1, 3, replace=False))
            a, b, c = [(rs[k] + rs[k + 1]) / 2 for k in cuts]
            f = lambda lo, hi: float(I.bandlimited_rms(r, p, flow=lo, fhigh=hi))
            check('quadrature-additive', bool(np.isclose(f(a, c) ** 2, f(a, b) ** 2 + f(b, c) ** 2, rtol=1e-9, atol=1e-14)))
            check('monotone-in-band', bool(f(a, c) + 1e-15 >= f(a, b) and f(a, c) + 1e-15 >= f(b, c)))
            g = float(I.bandlimited_rms(r, p, wllow=1 / c, wlhigh=1 / a))
            check('periods-equal-frequencies', bool(np.isclose(g, f(a, c), rtol=1e-9)))
            # bands open at one end (the other edge omitted), by frequency and by period: the omitted edge is the end of the data's
            # frequency range, so the open band is the explicit one, and the algebra above holds for it as well
            import warnings
            with warnings.catch_warnings():
                warnings.simplefilter('ignore')
                top = float(r.max()) * (1 + 1e-9)
                open_top = float(I.bandlimited_rms(r, p, flow=a))
                check('open-topped-band-is-the-band-to-the-largest-frequency', bool(np.isclose(open_top, f(a, top), rtol=1e-9)))
                check('open-topped-band-additive-and-monotone', bool(np.isclose(open_top ** 2, f(a, c) ** 2 + f(c, top) ** 2, rtol=1e-9, atol=1e-14)
                                                                     and open_top + 1e-15 >= f(a, c)))
                check('open-bottomed-band-starts-at-zero', bool(np.isclose(float(I.bandlimited_rms(r, p, fhigh=c)), f(0, c), rtol=1e-9)))
                check('lone-long-period-is-the-open-topped-band', bool(np.isclose(float(I.bandlimited_rms(r, p, wlhigh=1 / a)), f(a, top), rtol=1e-9)))
                check('lone-short-period-is-the-band-from-zero', bool(np.isclose(float(I.bandlimited_rms(r, p, wllow=1 / c)), f(0, c), rtol=1e-9)))
            # the band [0, 0] is the zero-frequency sample alone: an edge that is exactly zero is an edge, not "no edge"
            dc = f(0, 0)
            check('dc-only-band', bool(dc <= f(0, a) + 1e-15 and np.isclose(dc ** 2, p[H // 2, W // 2] * (1 / (W * dx)) * (1 / (H * dx)), rtol=1e-9, atol=1e-300)
                                       and np.isclose(f(0, a) ** 2, dc ** 2 + f(rs[1] / 2, a) ** 2, rtol=1e-9, atol=1e-14)))
            # a band that starts at zero frequency contains the zero-frequency sample
            check('band-from-zero-includes-dc', bool(np.isclose(f(0, c) ** 2, f(0, a) ** 2 + f(a, c) ** 2, rtol=1e-9, atol=1e-14)
                                                     and f(0, a) ** 2 >= p[H // 2, W // 2] / (W * dx) / (H * dx) * 0.24))
        else:
            full = float(I.bandlimited_rms(r, p, flow=0, fhigh=None))
            w = I.make_window(z, dx, 'hann')
            target = np.sqrt(((z * w) ** 2).sum() / (w ** 2).sum())
            # the trapezoid rule gives half weight to the outermost rows/columns: bound the discrepancy by their weight; the cell of
            # the frequency grid is dfx * dfy = 1/(W dx) * 1/(H dx), square data or not
            dfx, dfy = 1 / (W * dx), 1 / (H * dx)
            edge = (p[0, :].sum() + p[-1, :].sum() + p[:, 0].sum() + p[:, -1].sum()) * dfx * dfy
            check('full-band-reproduces-windowed-rms', bool(abs(full ** 2 - target ** 2) <= edge + 1e-12))
    elif which == 'synthetic-surface-rms':
        samples = int(rng.integers(8, 33))
        target = float(rng.uniform(0.1, 20))
        mask = None
        if rng.random() < 0.6:
            yy, xx = np.mgrid[:samples, :samples]
            rad = np.hypot(yy - samples // 2, xx - samples // 2)
            R = samples * rng.uniform(0.3, 0.5)
            style = int(rng.integers(0, 4))
            if style == 0:
                mask = (rad <= R).astype(float)
            elif style == 1:
                mask = rad <= R                                    # boolean
            elif style == 2:
                mask = np.clip(R + 0.5 - rad, 0, 1)                # anti-aliased edge: transmission between 0 and 1 on the rim
            else:
                mask = (rad <= R) * rng.uniform(0.2, 3.0, rad.shape)      # any non-zero value marks a valid sample
        x, y, zz = I.render_synthetic_surface(float(rng.uniform(5, 50)), samples, rms=target, mask=mask, a=float(rng.uniform(0.5, 5)),
                                              b=float(rng.uniform(0.001, 0.1)), c=float(rng.uniform(1.5, 3)))
        fin = np.isfinite(zz)
        check('requested-rms-over-valid-samples', bool(np.isclose(np.sqrt((zz[fin] ** 2).mean()), target, rtol=1e-9)))
        if mask is not None:
            check('mask-respected', bool((~fin == (mask == 0)).all()))
    else:
        ifg = I.Interferogram(z.copy(), dx=dx)
        p = ifg.psd()
        check('psd-object-axes', bool(np.isclose(p.x[0, W // 2], 0) and np.isclose(p.y[H // 2, 0], 0)))
        # its sample spacing is the frequency step of the x axis, 1/(W dx): a scalar, consistent with the axis it carries
        check('psd-object-dx-is-the-x-frequency-step', bool(np.ndim(p.dx) == 0 and np.isclose(p.dx, 1 / (W * dx), rtol=1e-12)
                                                            and (W < 2 or np.allclose(np.diff(np.broadcast_to(p.x, (H, W)), axis=1), p.dx))))
        v = float(ifg.bandlimited_rms(flow=0, fhigh=None))
        check('bandlimited-rms-runs', bool(np.isfinite(v) and v >= 0))
        # the class methods are the functions: same spectrum, same per-axis frequency grids (square data or not), same band RMS
        ux, uy, pf = I.psd(z, dx)
        check('psd-object-is-the-function', bool(np.allclose(p.data, pf) and np.allclose(np.broadcast_to(p.x, pf.shape), np.broadcast_to(ux, pf.shape))
                                                 and np.allclose(np.broadcast_to(p.y, pf.shape), np.broadcast_to(uy, pf.shape))
                                                 and np.allclose(np.broadcast_to(p.r, pf.shape), np.hypot(np.broadcast_to(ux, pf.shape), np.broadcast_to(uy, pf.shape)))))
        rr = np.hypot(np.broadcast_to(ux, pf.shape), np.broadcast_to(uy, pf.shape))
        rs = np.unique(np.round(rr.ravel(), 12))
        if len(rs) >= 4:
            lo, hi = (rs[1] + rs[2]) / 2, (rs[-2] + rs[-1]) / 2
            check('method-band-rms-is-the-function', bool(np.isclose(float(ifg.bandlimited_rms(flow=lo, fhigh=hi)), float(I.bandlimited_rms(rr, pf, flow=lo, fhigh=hi)), rtol=1e-9)))
        # the class entry point for synthesis, with its default mask argument and without a mask
        target = float(rng.uniform(0.1, 20))
        for mk in ('default', None):
            kw = {} if mk == 'default' else dict(mask=None)
            syn = I.Interferogram.render_from_psd(float(rng.uniform(5, 50)), int(rng.integers(8, 25)), rms=target, a=1.0, b=0.01, c=2.0, **kw)
            fin = np.isfinite(syn.data)
            check('render_from_psd-requested-rms-over-valid-samples', bool(np.isclose(np.sqrt((syn.data[fin] ** 2).mean()), target, rtol=1e-9)))
        tis = float(ifg.total_integrated_scatter(0.6328))
        check('tis-in-range', bool(0 <= tis <= 1))
