"""C18 — segmented apertures tile exactly; mask primitives respect their geometry.

Deductive part: the primitives whose membership test is an analytic inequality on the coordinates (circle, annulus, offset circle,
rectangle at 0/90 degrees, rotated ellipse), the cube-coordinate hexagon algebra, and the window arithmetic (_local_window) that
decides which samples a segment may own.  Bounded part (stated bounds in each docstring): the Delaunay point-in-polygon primitive
(qhull is external), spiders and rotated rectangles (atan2/cos/sin round trip), and the two composite apertures."""
from pvc.api import *

G = 'prysm.geometry.'
S = 'prysm.segmented.'


# ------------------------------------------------------------------------------------------ primitives: analytic inequalities
@harness('C18', 'circle/def', fuc=['prysm.geometry.circle'])
def circle_def():
    """circle(R, r)[i,j] <=> r[i,j] <= R for every radial-coordinate array; the mask grows with R; samples at equal radius
    (every symmetry of the radial coordinate) get equal values."""
    m, n = Int('m', 1), Int('n', 1)
    r = Array('r', (m, n))
    R, R2 = Real('R'), Real('R2')
    out = call(G + 'circle', R, r)
    i, j, k, l = idx(m, 'i'), idx(n, 'j'), idx(m, 'k'), idx(n, 'l')
    check('shape', shape_is(out, m, n))
    check('inside-iff-r<=R', elem(out, i, j) == (elem(r, i, j) <= R))
    out2 = call(G + 'circle', R2, r)
    check('monotone-in-radius', Implies(And(R2 >= R, elem(out, i, j)), elem(out2, i, j)))
    check('radial-symmetry', Implies(elem(r, i, j) == elem(r, k, l), elem(out, i, j) == elem(out, k, l)))


@harness('C18', 'annulus/def', fuc=['prysm.geometry.annulus'])
def annulus_def():
    """annulus(rin, rout, r)[i,j] <=> rin <= r[i,j] <= rout; grows when rout grows or rin shrinks; radially symmetric."""
    m, n = Int('m', 1), Int('n', 1)
    r = Array('r', (m, n))
    a, b, a2, b2 = Real('rin'), Real('rout'), Real('rin2'), Real('rout2')
    out = call(G + 'annulus', a, b, r)
    i, j, k, l = idx(m, 'i'), idx(n, 'j'), idx(m, 'k'), idx(n, 'l')
    check('shape', shape_is(out, m, n))
    check('inside-iff-rin<=r<=rout', elem(out, i, j) == And(elem(r, i, j) >= a, elem(r, i, j) <= b))
    out2 = call(G + 'annulus', a2, b2, r)
    check('monotone', Implies(And(a2 <= a, b2 >= b, elem(out, i, j)), elem(out2, i, j)))
    check('radial-symmetry', Implies(elem(r, i, j) == elem(r, k, l), elem(out, i, j) == elem(out, k, l)))
    check('empty-when-rin>rout', Implies(a > b, Not(elem(out, i, j))))


def _grid(m, n, *at):
    """a cartesian grid as the callers build it: x varies along columns only, y along rows only (the precondition of
    optimize_xy_separable), instantiated at the index pairs the checks look at"""
    x, y = Array('x', (m, n)), Array('y', (m, n))
    for (i, j) in at:
        assume(And(elem(x, i, j) == elem(x, 0, j), elem(y, i, j) == elem(y, i, 0)))
    if MODE != 'symbolic':
        x[:] = x[0:1, :]
        y[:] = y[:, 0:1]
    return x, y


@harness('C18', 'offset_circle/def', fuc=['prysm.geometry.offset_circle', 'prysm.coordinates.optimize_xy_separable'])
def offset_circle_def():
    """offset_circle(R, x, y, (cx, cy))[i,j] <=> (x-cx)^2 + (y-cy)^2 <= R^2 for R >= 0 (empty for R < 0); monotone in R;
    mirror symmetric about its centre."""
    m, n = Int('m', 1), Int('n', 1)
    i, j, k, l = idx(m, 'i'), idx(n, 'j'), idx(m, 'k'), idx(n, 'l')
    x, y = _grid(m, n, (i, j), (k, l))
    R, R2, cx, cy = Real('R'), Real('R2'), Real('cx'), Real('cy')
    out = call(G + 'offset_circle', R, x, y, (cx, cy))
    X, Y = elem(x, i, j) - cx, elem(y, i, j) - cy
    check('shape', shape_is(out, m, n))
    check('inside-iff-distance<=R', Implies(R >= 0, elem(out, i, j) == (X * X + Y * Y <= R * R)))
    check('empty-for-negative-R', Implies(R < 0, Not(elem(out, i, j))))
    out2 = call(G + 'offset_circle', R2, x, y, (cx, cy))
    check('monotone-in-radius', Implies(And(R2 >= R, elem(out, i, j)), elem(out2, i, j)))
    X2, Y2 = elem(x, k, l) - cx, elem(y, k, l) - cy
    check('mirror-symmetry', Implies(And(Or(X2 == X, X2 == -X), Or(Y2 == Y, Y2 == -Y)), elem(out, i, j) == elem(out, k, l)))


@harness('C18', 'rectangle/def', variants=[dict(angle=a, height=h) for a in (0, 90) for h in ('none', 'given')],
         fuc=['prysm.geometry.rectangle', 'prysm.coordinates.optimize_xy_separable'])
def rectangle_def(v):
    """rectangle(w, x, y, h, angle)[i,j] <=> |x| <= w and |y| <= h at angle 0 (|y| <= w and |x| <= h at 90 degrees, h = w when
    omitted); grows with w and h; mirror symmetric about both axes through the grid origin."""
    m, n = Int('m', 1), Int('n', 1)
    i, j, k, l = idx(m, 'i'), idx(n, 'j'), idx(m, 'k'), idx(n, 'l')
    x, y = _grid(m, n, (i, j), (k, l))
    w, h, w2, h2 = Real('w'), Real('h'), Real('w2'), Real('h2')
    kw = dict(angle=v['angle'])
    kw2 = dict(angle=v['angle'])
    if v['height'] == 'given':
        kw['height'], kw2['height'] = h, h2
        H, H2 = h, h2
    else:
        H, H2 = w, w2
    out = call(G + 'rectangle', w, x, y, **kw)
    X, Y = elem(x, i, j), elem(y, i, j)
    if v['angle'] == 90:
        X, Y = Y, X
    check('shape', shape_is(out, m, n))
    check('inside-iff-|x|<=w-and-|y|<=h', elem(out, i, j) == And(X <= w, X >= -w, Y <= H, Y >= -H))
    out2 = call(G + 'rectangle', w2, x, y, **kw2)
    check('monotone-in-size', Implies(And(w2 >= w, H2 >= H, elem(out, i, j)), elem(out2, i, j)))
    Xk, Yk = elem(x, k, l), elem(y, k, l)
    if v['angle'] == 90:
        Xk, Yk = Yk, Xk
    check('mirror-symmetry', Implies(And(Or(Xk == X, Xk == -X), Or(Yk == Y, Yk == -Y)), elem(out, i, j) == elem(out, k, l)))


@harness('C18', 'rotated_ellipse/def', fuc=['prysm.geometry.rotated_ellipse'])
def ellipse_def():
    """rotated_ellipse(a, b, x, y, theta)[i,j] = 1 <=> (X/a)^2 + (Y/b)^2 <= 1 with (X, Y) the sample in the frame of the ellipse
    (X = x cos t - y sin t, Y = x sin t + y cos t up to the sign of Y, t = theta in radians: the code's orientation convention, the
    major axis turned from +x towards -y), 0 otherwise; ValueError when b > a; grows with a and b; point symmetric about the origin."""
    m, n = Int('m', 1), Int('n', 1)
    x, y = Array('x', (m, n)), Array('y', (m, n))
    a, b = Real('a', pos=True), Real('b', pos=True)
    th = Real('theta')
    i, j, k, l = idx(m, 'i'), idx(n, 'j'), idx(m, 'k'), idx(n, 'l')
    if did_raise(lambda: call(G + 'rotated_ellipse', a, b, x, y, th), ValueError):
        check('raises-only-when-minor>major', b > a)
        return
    check('accepts-only-minor<=major', b <= a)
    out = call(G + 'rotated_ellipse', a, b, x, y, th)
    A = -th * pi / 180
    c, s = cos(A), sin(A)
    X = elem(x, i, j) * c + elem(y, i, j) * s
    Y = elem(x, i, j) * s - elem(y, i, j) * c
    inside = X * X / (a * a) + Y * Y / (b * b) <= 1
    check('shape', shape_is(out, m, n))
    check('one-inside-zero-outside', And(Implies(inside, elem(out, i, j) == 1), Implies(Not(inside), elem(out, i, j) == 0)))
    check('point-symmetry', Implies(And(elem(x, k, l) == -elem(x, i, j), elem(y, k, l) == -elem(y, i, j)), elem(out, i, j) == elem(out, k, l)))


@harness('C18', 'rotated_ellipse/monotone', fuc=['prysm.geometry.rotated_ellipse'])
def ellipse_monotone():
    """a sample inside the ellipse (a, b) is inside every ellipse (a2 >= a, b2 >= b) at the same angle."""
    m, n = Int('m', 1), Int('n', 1)
    x, y = Array('x', (m, n)), Array('y', (m, n))
    a, b, a2, b2 = Real('a', pos=True), Real('b', pos=True), Real('a2', pos=True), Real('b2', pos=True)
    assume(And(b <= a, b2 <= a2, a2 >= a, b2 >= b))
    th = Real('theta')
    i, j = idx(m, 'i'), idx(n, 'j')
    o1 = call(G + 'rotated_ellipse', a, b, x, y, th)
    o2 = call(G + 'rotated_ellipse', a2, b2, x, y, th)
    A = -th * pi / 180
    X = elem(x, i, j) * cos(A) + elem(y, i, j) * sin(A)
    Y = elem(x, i, j) * sin(A) - elem(y, i, j) * cos(A)
    use_lemma('lemma/ellipse-nesting', _nesting(X * X, Y * Y, a, b, a2, b2))
    check('monotone-in-axes', Implies(elem(o1, i, j) == 1, elem(o2, i, j) == 1))


def _nesting(u, v, a, b, a2, b2):
    return Implies(And(u >= 0, v >= 0, a > 0, b > 0, a2 >= a, b2 >= b, u / (a * a) + v / (b * b) <= 1), u / (a2 * a2) + v / (b2 * b2) <= 1)


@lemma('C18', 'lemma/ellipse-nesting')
def ellipse_nesting():
    """real arithmetic: u / a^2 + v / b^2 <= 1 with u, v >= 0 and 0 < a <= a2, 0 < b <= b2 gives u / a2^2 + v / b2^2 <= 1."""
    u, v = Real('u'), Real('v')
    a, b, a2, b2 = Real('a', pos=True), Real('b', pos=True), Real('a2', pos=True), Real('b2', pos=True)
    check('nesting', _nesting(u, v, a, b, a2, b2))


# ------------------------------------------------------------------------------------------ hexagon algebra
def _hex(tag):
    Hex = get(S + 'Hex')
    q, r = Int('q' + tag), Int('r' + tag)
    return Hex(q, r, -q - r)


@harness('C18', 'hex/algebra', fuc=['prysm.segmented.add_hex', 'prysm.segmented.sub_hex', 'prysm.segmented.scale_hex',
                                    'prysm.segmented.hex_neighbor', 'prysm.segmented.hex_dir', 'prysm.segmented.hex_to_xy'])
def hex_algebra():
    """cube coordinates stay on the plane q + r + s = 0 under add / sub / scale / neighbour; a neighbour is at cube distance 1;
    hex_to_xy is linear in the coordinate (both orientations), so centres of neighbouring segments are sqrt(3) pitch apart."""
    a, b = _hex('a'), _hex('b')
    k = Int('k')
    zs = lambda h: h.q + h.r + h.s == 0
    add, sub, scale = call(S + 'add_hex', a, b), call(S + 'sub_hex', a, b), call(S + 'scale_hex', a, k)
    check('add-on-plane', And(zs(add), add.q == a.q + b.q, add.r == a.r + b.r))
    check('sub-on-plane', And(zs(sub), sub.q == a.q - b.q, sub.r == a.r - b.r))
    check('scale-on-plane', And(zs(scale), scale.q == a.q * k, scale.r == a.r * k))
    R = Real('pitch', pos=True)
    for rot in (90, 0):
        xa, ya = call(S + 'hex_to_xy', a, R, rot)
        xb, yb = call(S + 'hex_to_xy', b, R, rot)
        xs, ys = call(S + 'hex_to_xy', add, R, rot)
        check('hex_to_xy-linear-rot%d' % rot, And(approx(xs, xa + xb, 1e-9), approx(ys, ya + yb, 1e-9)))
    for d in range(6):
        nb = call(S + 'hex_neighbor', a, d)
        dq, dr, ds = nb.q - a.q, nb.r - a.r, nb.s - a.s
        mx = lambda u: ite(u >= 0, u, -u)
        check('neighbour-%d-on-plane-at-distance-1' % d, And(zs(nb), mx(dq) <= 1, mx(dr) <= 1, mx(ds) <= 1, mx(dq) + mx(dr) + mx(ds) == 2))
        nb6 = call(S + 'hex_neighbor', a, d + 6)
        check('direction-%d-wraps-at-6' % d, And(nb6.q == nb.q, nb6.r == nb.r, nb6.s == nb.s))


# ------------------------------------------------------------------------------------------ segment windows
@harness('C18', '_local_window/contains-segment', variants=['hex-caller', 'keystone-caller'], fuc=['prysm.segmented._local_window'])
def local_window(v):
    """_local_window returns slices inside the array, and (with the half-width the callers pass: int(rho + 1) samples for a hexagon
    of vertex radius rho samples, ceil(w / 2) for a keystone whose bounding box is w samples wide) the window contains every sample
    of the array within that half-extent of the segment centre, on both sides, for centres of either sign and grids of either
    parity (origin sample at index n // 2)."""
    ny, nx = Int('ny', 1), Int('nx', 1)
    x, y = Array('x', (ny, nx)), Array('y', (ny, nx))
    dx = Real('dx', pos=True)
    cxr, cyr = Real('center_x'), Real('center_y')
    cx, cy = nx // 2, ny // 2
    if v == 'hex-caller':
        rho = Real('rseg_over_dx', pos=True)
        sps = floor(rho + 1)                 # int(samples_per_seg + 1) of a positive number
        half_x = half_y = rho
    else:
        wx, wy = Real('rangex_over_dx', pos=True), Real('rangey_over_dx', pos=True)
        sps = [ceil(wx / 2), ceil(wy / 2)]
        half_x, half_y = wx / 2, wy / 2
    sy, sx = call(S + '_local_window', cy, cx, (cxr, cyr), dx, sps, x, y)
    check('slices-inside-array', And(0 <= sx.start, sx.start <= sx.stop, sx.stop <= nx, 0 <= sy.start, sy.start <= sy.stop, sy.stop <= ny))
    k = Int('k')
    ux, uy = cxr / dx, cyr / dx
    near_x = And(k >= 0, k < nx, (k - cx) - ux <= half_x, ux - (k - cx) <= half_x)
    near_y = And(k >= 0, k < ny, (k - cy) - uy <= half_y, uy - (k - cy) <= half_y)
    check('every-column-of-the-segment-is-in-the-window', Implies(near_x, And(sx.start <= k, k < sx.stop)))
    check('every-row-of-the-segment-is-in-the-window', Implies(near_y, And(sy.start <= k, k < sy.stop)))


# ------------------------------------------------------------------------------------------ bounded stand-ins
def _hexagon(np, x, y, c, rseg, rot, margin):
    """analytic regular hexagon of vertex radius rseg, vertices at bearing rot + 60 k degrees (measured from +y towards +x, the
    convention of _generate_vertices); returns (inside, within `margin` of an edge line)"""
    import math
    X, Y = x - c[0], y - c[1]
    apo = rseg * math.sqrt(3) / 2
    ins, near = np.ones(x.shape, bool), np.zeros(x.shape, bool)
    for k in range(6):
        ang = np.radians(k * 60 + rot + 30)
        d = X * np.sin(ang) + Y * np.cos(ang)
        ins &= d <= apo
        near |= abs(d - apo) <= margin
    return ins, near


def _polygon(np, x, y, sides, radius, center, rot, margin):
    import math
    X, Y = x - center[0], y - center[1]
    apo = radius * math.cos(math.pi / sides)
    ins, near = np.ones(np.broadcast(x, y).shape, bool), np.zeros(np.broadcast(x, y).shape, bool)
    for k in range(sides):
        ang = np.radians(rot) + (k + 0.5) * 2 * np.pi / sides
        d = X * np.sin(ang) + Y * np.cos(ang)
        ins &= d <= apo
        near |= abs(d - apo) <= margin
    return ins, near


@harness('C18', 'bounded/primitives', kind='bounded', variants=['regular_polygon', 'spider', 'rectangle-rotated', 'ellipse-and-circles'],
         fuc=['prysm.geometry.regular_polygon', 'prysm.geometry._generate_mask', 'prysm.geometry._generate_vertices', 'prysm.geometry.spider',
              'prysm.geometry.rectangle', 'prysm.geometry.rotated_ellipse', 'prysm.geometry.circle', 'prysm.geometry.offset_circle',
              'prysm.coordinates.make_xy_grid', 'prysm.coordinates.cart_to_polar'])
def bounded_primitives(which):
    """BOUNDED (qhull point location and the atan2 / cos / sin round trip of cart_to_polar -> polar_to_cart are outside the
    deductive model): seeded grids 8..64 samples per axis (square and not, odd and even), sides 3..12, any rotation, centre
    offsets, 1..8 vanes; samples closer than 1e-9 array units to the analytic boundary are not judged (qhull joggles its input)."""
    import numpy as np
    import math
    rng = np.random.default_rng(Int('seed', 0, 10 ** 6))
    geo = get('prysm.geometry')
    co = get('prysm.coordinates')
    n = int(rng.integers(8, 65))
    m = n if rng.random() < 0.5 else int(rng.integers(8, 65))
    dx = float(rng.uniform(0.01, 1.0))
    x, y = co.make_xy_grid((n, m), dx=dx)
    ext = min(x.max(), y.max())
    eps = 1e-9 * max(1.0, ext)
    if which == 'regular_polygon':
        sides = int(rng.integers(3, 13))
        radius = float(rng.uniform(0.1, 1.2)) * ext
        center = (0.0, 0.0) if rng.random() < 0.4 else (float(rng.uniform(-.3, .3)) * ext, float(rng.uniform(-.3, .3)) * ext)
        rot = float(rng.choice([0.0, 90.0, 30.0, float(rng.uniform(-360, 360))]))
        got = geo.regular_polygon(sides, radius, x, y, center=center, rotation=rot)
        ins, near = _polygon(np, x, y, sides, radius, center, rot, eps)
        check('shape-and-dtype', bool(got.shape == x.shape and got.dtype == bool))
        check('samples-on-the-correct-side-of-every-edge', bool(((got == ins) | near).all()))
        bigger = geo.regular_polygon(sides, radius * float(rng.uniform(1.0, 1.5)), x, y, center=center, rotation=rot)
        check('grows-with-radius', bool((bigger | ~got | near).all()))
        # mirror symmetry of the shape about the vertical through its centre when a vertex points up (rotation 0), centred polygon
        sym = geo.regular_polygon(sides, radius, x, y, center=(0.0, 0.0), rotation=0.0)
        _, near0 = _polygon(np, x, y, sides, radius, (0.0, 0.0), 0.0, eps)
        j0 = x.shape[1] // 2
        w = min(j0, x.shape[1] - 1 - j0)
        left, right = sym[:, j0 - w:j0][:, ::-1], sym[:, j0 + 1:j0 + 1 + w]
        nl, nr = near0[:, j0 - w:j0][:, ::-1], near0[:, j0 + 1:j0 + 1 + w]
        check('mirror-symmetric-about-the-origin-column', bool(((left == right) | nl | nr).all()))
        area = got.sum() * dx * dx
        full = sides / 2 * radius ** 2 * math.sin(2 * math.pi / sides)
        per = 2 * sides * radius * math.sin(math.pi / sides)
        inside_grid = max(abs(center[0]), abs(center[1])) + radius < ext
        check('area-within-boundary-rasterisation', bool((not inside_grid) or abs(area - full) <= per * dx + dx * dx))
    elif which == 'spider':
        vanes = int(rng.integers(1, 9))
        width = float(rng.uniform(0.5, 6)) * dx
        rot = float(rng.choice([0.0, 45.0, 90.0, float(rng.uniform(-180, 180))]))
        center = (0.0, 0.0) if rng.random() < 0.5 else (float(rng.uniform(-.3, .3)) * ext, float(rng.uniform(-.3, .3)) * ext)
        rad = bool(rng.random() < 0.3)
        got = geo.spider(vanes, width, x, y, rotation=math.radians(rot) if rad else rot, center=center, rotation_is_rad=rad)
        X, Y = x - center[0], y - center[1]
        blocked, near = np.zeros(x.shape, bool), np.zeros(x.shape, bool)
        for k in range(vanes):
            a = math.radians(rot) + 2 * math.pi * k / vanes      # vane k points along this direction (from +x towards +y)
            along = X * math.cos(a) + Y * math.sin(a)
            across = -X * math.sin(a) + Y * math.cos(a)
            blocked |= (along > 0) & (abs(across) < width / 2)
            near |= (abs(along) <= eps) | (abs(abs(across) - width / 2) <= eps)
        check('shape-and-dtype', bool(got.shape == x.shape and got.dtype == bool))
        check('transmits-exactly-outside-the-vanes', bool(((got == ~blocked) | near).all()))
        wider = geo.spider(vanes, width * float(rng.uniform(1.0, 2.0)), x, y, rotation=math.radians(rot) if rad else rot, center=center, rotation_is_rad=rad)
        check('wider-vanes-block-more', bool((got | ~wider | near).all()))
        # symmetry about the horizontal through the centre for rotation 0 (vanes at +-angle pairs), centred spider
        sym = geo.spider(vanes, width, x, y)
        i0 = x.shape[0] // 2
        h = min(i0, x.shape[0] - 1 - i0)
        check('mirror-symmetric-about-the-origin-row', bool((sym[i0 - h:i0][::-1] == sym[i0 + 1:i0 + 1 + h]).all()))
        if vanes % 2 == 0:
            j0 = x.shape[1] // 2
            w = min(j0, x.shape[1] - 1 - j0)
            a_ = sym[i0 - h:i0 + h + 1, j0 - w:j0 + w + 1]
            check('even-vane-count-is-point-symmetric', bool((a_ == a_[::-1, ::-1]).all()))
    elif which == 'rectangle-rotated':
        w, h = float(rng.uniform(0.05, 1.1)) * ext, float(rng.uniform(0.05, 1.1)) * ext
        ang = float(rng.choice([0.0, 90.0, 45.0, 180.0, float(rng.uniform(-360, 360))]))
        got = np.broadcast_to(geo.rectangle(w, x, y, height=h, angle=ang), x.shape)
        a = math.radians(ang)
        if ang == 90:
            Xr, Yr = y, x
        else:
            Xr, Yr = x * math.cos(a) - y * math.sin(a), x * math.sin(a) + y * math.cos(a)
        tol = 1e-9 * max(1.0, ext)
        ins = (abs(Xr) <= w) & (abs(Yr) <= h)
        near = (abs(abs(Xr) - w) <= tol) | (abs(abs(Yr) - h) <= tol)
        check('samples-inside-the-rotated-rectangle', bool(((got == ins) | near).all()))
        got2 = np.broadcast_to(geo.rectangle(w * 1.25, x, y, height=h * 1.5, angle=ang), x.shape)
        check('grows-with-size', bool((got2 | ~got | near).all()))
        i0, j0 = x.shape[0] // 2, x.shape[1] // 2
        hh, ww = min(i0, x.shape[0] - 1 - i0), min(j0, x.shape[1] - 1 - j0)
        a_, n_ = got[i0 - hh:i0 + hh + 1, j0 - ww:j0 + ww + 1], near[i0 - hh:i0 + hh + 1, j0 - ww:j0 + ww + 1]
        check('point-symmetric-about-the-origin', bool(((a_ == a_[::-1, ::-1]) | n_ | n_[::-1, ::-1]).all()))
    else:
        a_, b_ = sorted((float(rng.uniform(0.05, 1.1)) * ext, float(rng.uniform(0.05, 1.1)) * ext), reverse=True)
        ang = float(rng.choice([0.0, 90.0, 45.0, float(rng.uniform(-360, 360))]))
        got = geo.rotated_ellipse(a_, b_, x, y, major_axis_angle=ang)
        A = math.radians(-ang)
        q = ((x * math.cos(A) + y * math.sin(A)) / a_) ** 2 + ((x * math.sin(A) - y * math.cos(A)) / b_) ** 2
        near = abs(q - 1) <= 1e-9
        check('ellipse-membership', bool((((got == 1) == (q <= 1)) | near).all() and set(np.unique(got)) <= {0.0, 1.0}))
        inside_grid = a_ < ext
        check('ellipse-area', bool((not inside_grid) or abs(got.sum() * dx * dx - math.pi * a_ * b_) <= 2 * math.pi * a_ * dx + dx * dx))
        r, t = co.cart_to_polar(x, y)
        R = float(rng.uniform(0.05, 1.3)) * ext
        c = geo.circle(R, r)
        check('circle-membership', bool((c == (x * x + y * y <= R * R) | (abs(np.hypot(x, y) - R) <= eps)).all() or ((c == (np.hypot(x, y) <= R)).all())))
        check('circle-area', bool(R >= ext or abs(c.sum() * dx * dx - math.pi * R * R) <= 2 * math.pi * R * dx + dx * dx))
        i0, j0 = x.shape[0] // 2, x.shape[1] // 2
        hh, ww = min(i0, x.shape[0] - 1 - i0), min(j0, x.shape[1] - 1 - j0)
        cc = c[i0 - hh:i0 + hh + 1, j0 - ww:j0 + ww + 1]
        check('circle-fourfold-symmetry', bool((cc == cc[::-1]).all() and (cc == cc[:, ::-1]).all() and (hh != ww or (cc == cc.T).all())))
        cen = (float(rng.uniform(-.4, .4)) * ext, float(rng.uniform(-.4, .4)) * ext)
        oc = geo.offset_circle(R * 0.5, x, y, cen)
        d = np.hypot(x - cen[0], y - cen[1])
        check('offset-circle-membership', bool(((oc == (d <= R * 0.5)) | (abs(d - R * 0.5) <= eps)).all()))
        rin = float(rng.uniform(0, 1)) * R
        an = geo.annulus(rin, R, r)
        check('annulus-is-circle-minus-inner-disc', bool((an == (c & ~(r < rin))).all()))


@harness('C18', 'bounded/hex_ring', kind='bounded', fuc=['prysm.segmented.hex_ring', 'prysm.segmented.hex_to_xy'], seeds=1)
def bounded_hex_ring():
    """BOUNDED: ring radius 0..12 (the rotate-by-pop loop over a Python list is outside the loop-contract subset): 6 r distinct
    coordinates on the plane at cube distance r, consecutive ones neighbours around the closed ring, starting from the
    northern-most position and proceeding clockwise in both orientations."""
    import math
    sg = get('prysm.segmented')
    for radius in range(0, 13):
        ring = sg.hex_ring(radius)
        check('ring-%d-has-6r-distinct-cells' % radius, len(ring) == 6 * radius and len(set(ring)) == len(ring))
        check('ring-%d-on-plane-at-distance-r' % radius, all(h.q + h.r + h.s == 0 and max(abs(h.q), abs(h.r), abs(h.s)) == radius for h in ring))
        if radius:
            step = lambda a, b: max(abs(a.q - b.q), abs(a.r - b.r), abs(a.s - b.s))
            check('ring-%d-consecutive-cells-are-neighbours' % radius, all(step(ring[k], ring[(k + 1) % len(ring)]) == 1 for k in range(len(ring))))
            for rot in (90, 0):
                xy = [sg.hex_to_xy(h, 1.0, rot) for h in ring]
                bearing = [math.degrees(math.atan2(x, y)) % 360 for x, y in xy]
                start_ok = abs(bearing[0]) < 1e-9 if rot == 90 else bearing[0] < 60 + 1e-9
                steps = [(b2 - b1) % 360 for b1, b2 in zip(bearing, bearing[1:])]
                check('ring-%d-rot%d-starts-up-and-runs-clockwise' % (radius, rot),
                      start_ok and all(1e-9 < d < 180 for d in steps) and sum(steps) < 360)


def _draw_grid(np, rng, co, lo=16, hi=72):
    n = int(rng.integers(lo, hi))
    m = n if rng.random() < 0.5 else int(rng.integers(lo, hi))
    diam = float(rng.uniform(2, 10))
    dx = diam / max(n, m)
    x, y = co.make_xy_grid((n, m), dx=dx)
    return x, y, dx, diam


@harness('C18', 'bounded/hexagonal-aperture', kind='bounded', variants=['tiling', 'opd'],
         fuc=['prysm.segmented.CompositeHexagonalAperture', 'prysm.segmented._composite_hexagonal_aperture', 'prysm.segmented._local_window',
              'prysm.segmented.hex_ring', 'prysm.segmented.hex_to_xy', 'prysm.segmented.CompositeHexagonalAperture.prepare_opd_bases',
              'prysm.segmented.CompositeHexagonalAperture.compose_opd', 'prysm.geometry.regular_polygon'])
def bounded_hex_aperture(which):
    """BOUNDED: seeded grids 16..71 samples per axis (square and not, odd and even, any sampling), 0..3 rings, segment diameters
    from well inside to beyond the grid, gaps 0..30% of the diameter, both orientations, random exclusion sets (including none,
    the centre, whole rings), (r, t) and (x, y) bases, random coefficient arrays."""
    import numpy as np
    import math
    rng = np.random.default_rng(Int('seed', 0, 10 ** 6))
    sg, co = get('prysm.segmented'), get('prysm.coordinates')
    x, y, dx, diam = _draw_grid(np, rng, co)
    rings = int(rng.integers(0, 4))
    D = diam / (2 * rings + 1) * float(rng.uniform(0.5, 1.2))
    sep = float(rng.uniform(0, 0.3)) * D if rng.random() < 0.8 else 0.0
    ang = int(rng.choice([0, 90]))
    nseg = 1 + 3 * rings * (rings + 1)
    mode = rng.random()
    if mode < 0.3:
        exclude = ()
    elif mode < 0.5:
        exclude = (0,)
    elif mode < 0.6 and rings >= 1:
        exclude = tuple(range(1, 7))                       # a whole ring
    else:
        k = int(rng.integers(1, min(nseg, 6) + 1))
        exclude = tuple(int(v) for v in rng.choice(nseg, size=k, replace=False))
    if rings >= 2 and rng.random() < 0.3:
        exclude = tuple(set(exclude) | {6})                # the last id of a non-final ring
    cha = sg.CompositeHexagonalAperture(x, y, rings, D, sep, ang, exclude=exclude)
    rseg = D / math.sqrt(3)
    eps = 1e-9 * diam
    want_ids = sorted(set(range(nseg)) - set(exclude))
    if which == 'tiling':
        check('documented-number-of-segments', len(cha.segment_ids) == len(want_ids) == len(cha.windows) == len(cha.local_masks) == len(cha.all_centers))
        check('segment-ids-are-the-non-excluded-ones', sorted(int(i) for i in cha.segment_ids) == want_ids)
        cnt = np.zeros(x.shape, int)
        shapes_ok = areas_ok = True
        pitch = rseg + sep / math.sqrt(3)
        for win, mk, c, sid in zip(cha.windows, cha.local_masks, cha.all_centers, cha.segment_ids):
            full = np.zeros(x.shape, bool)
            full[win] = mk
            cnt += full
            ins, near = _hexagon(np, x, y, c, rseg, ang, eps)
            shapes_ok &= bool(((full == ins) | near).all())
            if max(abs(c[0]), abs(c[1])) + rseg < min(x.max(), -x.min(), y.max(), -y.min()):
                area = 3 * math.sqrt(3) / 2 * rseg ** 2
                areas_ok &= abs(full.sum() * dx * dx - area) <= 6 * rseg * dx + dx * dx
        # abutting segments (gap exactly zero) are reported under their own name: closed hexagons share the samples on a common edge
        check('no-sample-in-two-segments' if sep > 0 else 'no-sample-in-two-segments(zero-gap)', bool((cnt <= 1).all()))
        check('mask-is-the-union-of-segment-masks', bool(((cnt > 0) == cha.amp).all()))
        check('every-segment-is-its-hexagon', shapes_ok)
        check('segment-area-within-boundary-rasterisation', areas_ok)
        # the centres are the hexagonal lattice of pitch D + separation: nearest neighbours exactly that far apart
        cs = np.array(cha.all_centers).reshape(-1, 2)
        if len(cs) >= 2 and not exclude:
            d = np.hypot(cs[:, None, 0] - cs[None, :, 0], cs[:, None, 1] - cs[None, :, 1])
            d[np.arange(len(cs)), np.arange(len(cs))] = np.inf
            check('centres-one-pitch-apart', bool(np.allclose(d.min(axis=1), D + sep, rtol=1e-9)))
        # excluded segments contribute nothing
        gone = True
        if exclude:
            ref = sg.CompositeHexagonalAperture(x, y, rings, D, sep, ang, exclude=())
            refc = {int(i): c for i, c in zip(ref.segment_ids, ref.all_centers)}
            for e in exclude:
                ins, near = _hexagon(np, x, y, refc[int(e)], rseg, ang, eps)
                others = np.zeros(x.shape, bool)
                for i, c in zip(cha.segment_ids, cha.all_centers):
                    others |= _hexagon(np, x, y, c, rseg, ang, eps)[0]
                gone &= not bool((cha.amp & ins & ~near & ~others).any())
            for i, c in zip(cha.segment_ids, cha.all_centers):
                gone &= bool(np.allclose(c, refc[int(i)]))
        check('excluded-segments-are-absent-and-the-rest-unmoved', gone)
    else:
        if len(cha.segment_ids) == 0 or any(w[0].start >= w[0].stop or w[1].start >= w[1].stop for w in cha.windows):
            # prepare_opd_bases reads the first sample of every window: apertures with a segment wholly off the grid are not drawn
            check('no-segments-no-opd', True)
            return
        poly = get('prysm.polynomials')
        if rng.random() < 0.5:
            orders = [poly.noll_to_nm(j) for j in range(1, int(rng.integers(2, 8)))]
            cha.prepare_opd_bases(poly.zernike_nm_seq, orders)
        else:
            orders = [(0, 0), (1, 0), (0, 1), (1, 1), (2, 0)][:int(rng.integers(1, 6))]
            xyseq = lambda orders, x, y: poly.xy_seq(orders, x, y, cartesian_grid=False)
            cha.prepare_opd_bases(xyseq, orders)
        ns, nm = len(cha.segment_ids), len(orders)
        fulls = []
        for win, mk in zip(cha.windows, cha.local_masks):
            f = np.zeros(x.shape, bool)
            f[win] = mk
            fulls.append(f)
        s = int(rng.integers(0, ns))
        c = np.zeros((ns, nm))
        c[s, 0] = 1.0                                    # mode 0 is piston in both bases
        opd = cha.compose_opd(c)
        check('unit-piston-changes-exactly-its-own-segment', bool(np.allclose(opd, fulls[s].astype(float))))
        c1, c2 = rng.standard_normal((ns, nm)), rng.standard_normal((ns, nm))
        a, b = float(rng.standard_normal()), float(rng.standard_normal())
        o1, o2, o12 = cha.compose_opd(c1), cha.compose_opd(c2), cha.compose_opd(a * c1 + b * c2)
        check('linear-in-the-coefficients', bool(np.allclose(o12, a * o1 + b * o2, atol=1e-9)))
        only = np.zeros((ns, nm))
        only[s] = c1[s]
        o_s = cha.compose_opd(only)
        check('one-segment-coefficients-confined-to-that-segment', bool((o_s[~fulls[s]] == 0).all()))
        check('nothing-outside-the-aperture', bool((o1[~cha.amp] == 0).all()))
        check('sum-of-single-segment-maps', bool(np.allclose(o1, sum(cha.compose_opd(np.where(np.arange(ns)[:, None] == k, c1, 0.0)) for k in range(ns)), atol=1e-9)))
        base = rng.standard_normal(x.shape)
        acc = cha.compose_opd(c1, out=base.copy())
        check('out-argument-accumulates', bool(np.allclose(acc, base + o1, atol=1e-9)))


@harness('C18', 'bounded/keystone-aperture', kind='bounded', variants=['tiling', 'tiling-any-segment-count', 'tiling-explicit-rotation', 'tiling-zero-gap-on-lattice', 'opd'],
         fuc=['prysm.segmented.CompositeKeystoneAperture', 'prysm.segmented._composite_keystone_aperture', 'prysm.segmented._local_window',
              'prysm.segmented.CompositeKeystoneAperture.prepare_opd_bases', 'prysm.segmented.CompositeKeystoneAperture.compose_opd',
              'prysm.geometry.circle', 'prysm.geometry.spider'])
def bounded_keystone_aperture(which):
    """BOUNDED: seeded grids 24..90 samples per axis (square and not, odd and even), 1..3 rings of individually drawn radial
    width, radial gaps 0.2..2 samples, segment counts per ring: multiples of four ('tiling', 'opd'), any count 3..12
    ('tiling-any-segment-count'), explicit per-ring rotations 0..360 degrees ('tiling-explicit-rotation'), abutting rings (no radial
    gap) with radii exactly on samples ('tiling-zero-gap-on-lattice'); Zernike (r, t) bases."""
    import numpy as np
    import math
    rng = np.random.default_rng(Int('seed', 0, 10 ** 6))
    sg, co = get('prysm.segmented'), get('prysm.coordinates')
    x, y, dxs, diam = _draw_grid(np, rng, co, 24, 91)
    rings = int(rng.integers(1, 4))
    ccd = diam * float(rng.uniform(0.1, 0.3))
    widths = [(diam / 2 - ccd / 2) / rings * float(rng.uniform(0.5, 1.0)) for _ in range(rings)]
    gap = float(rng.uniform(0.2, 2)) * dxs
    if which == 'tiling-zero-gap-on-lattice':
        # abutting rings whose radii fall exactly on samples: dx a power of two, radii multiples of dx, no radial gap
        n_ = int(rng.integers(24, 91))
        dxs = 1.0 / 16
        x, y = co.make_xy_grid(n_, dx=dxs)
        diam = n_ * dxs
        ccd = 2 * dxs * int(rng.integers(2, max(3, n_ // 8)))
        widths = [dxs * int(rng.integers(2, max(3, n_ // (4 * rings)))) for _ in range(rings)]
        gap = 0.0
    if which == 'tiling-any-segment-count':
        spr = [int(rng.integers(3, 13)) for _ in range(rings)]
    else:
        spr = [4 * int(rng.integers(1, 4)) for _ in range(rings)]
    rot = [float(rng.uniform(0, 360)) for _ in range(rings)] if which == 'tiling-explicit-rotation' else None
    scalar = rng.random() < 0.3
    ka = sg.CompositeKeystoneAperture(x, y, ccd, rings, widths[0] if scalar else widths, spr[0] if scalar else spr, gap, None, rot)
    if scalar:
        widths, spr = [widths[0]] * rings, [spr[0]] * rings
    r, t = co.cart_to_polar(x, y)
    eps = 1e-9 * diam
    fulls = []
    for win, mk in zip(ka.segment_windows, ka.segment_masks):
        f = np.zeros(x.shape, bool)
        f[win] = mk
        fulls.append(f)
    cfull = np.zeros(x.shape, bool)
    cfull[ka.center_window] = ka.center_mask
    if which == 'opd' and any(w[0].stop - w[0].start < 2 or w[1].stop - w[1].start < 2 for w in ka.segment_windows):
        # prepare_opd_bases normalises each segment's coordinates by the extent of its window: segments that the edge of the grid
        # cuts down to less than two rows or columns (aperture larger than the array) have no extent; such apertures are not drawn
        check('segment-cut-to-nothing-by-the-grid-edge-not-drawn', True)
        return
    if which != 'opd':
        tag = {'tiling': '', 'tiling-any-segment-count': '(any-segment-count)', 'tiling-explicit-rotation': '(explicit-rotation)',
               'tiling-zero-gap-on-lattice': '(zero-gap-on-lattice)'}[which]
        check('documented-number-of-segments', len(ka.segment_ids) == sum(spr) == len(fulls) and list(ka.segment_ids) == list(range(sum(spr))))
        check('centre-segment-is-its-circle', bool((cfull == (r <= ccd / 2)).all()))
        cnt = cfull.astype(int)
        shapes_ok = areas_ok = True
        outer, k = ccd / 2, 0
        for ring in range(rings):
            inner = outer + gap
            outer = inner + widths[ring]
            arc = 360 / spr[ring]
            rotation = arc if rot is None else rot[ring]
            for s in range(spr[ring]):
                lo = math.radians(s * arc + rotation) - math.pi
                d = (t - lo) % (2 * math.pi)
                ins = (r > inner) & (r <= outer) & (d > 0) & (d < math.radians(arc))
                near = (abs(r - inner) < eps) | (abs(r - outer) < eps) | (abs(d) < 1e-9) | (abs(d - math.radians(arc)) < 1e-9) | (abs(d - 2 * math.pi) < 1e-9)
                cnt += fulls[k]
                shapes_ok &= bool(((fulls[k] == ins) | near).all())
                if outer < min(x.max(), -x.min(), y.max(), -y.min()):
                    area = math.radians(arc) / 2 * (outer ** 2 - inner ** 2)
                    per = math.radians(arc) * (outer + inner) + 2 * (outer - inner)
                    areas_ok &= abs(fulls[k].sum() * dxs * dxs - area) <= per * dxs + dxs * dxs
                k += 1
        check('no-sample-in-two-segments' + tag, bool((cnt <= 1).all()))
        check('every-transmitting-sample-in-exactly-one-segment' + tag, bool((cnt[ka.amp] == 1).all()))
        check('every-segment-is-its-keystone' + tag, shapes_ok)
        check('segment-area-within-boundary-rasterisation' + tag, areas_ok)
    else:
        poly = get('prysm.polynomials')
        co_orders = [poly.noll_to_nm(j) for j in range(1, int(rng.integers(2, 6)))]
        so_orders = [poly.noll_to_nm(j) for j in range(1, int(rng.integers(2, 6)))]
        ka.prepare_opd_bases(poly.zernike_nm_seq, co_orders, poly.zernike_nm_seq, so_orders)
        ns = len(fulls)
        zc, zs = np.zeros(len(co_orders)), np.zeros((ns, len(so_orders)))
        s = int(rng.integers(0, ns))
        one = zs.copy()
        one[s, 0] = 1.0
        check('unit-piston-changes-exactly-its-own-segment', bool(np.allclose(ka.compose_opd(zc, one), fulls[s].astype(float))))
        pc = zc.copy()
        pc[0] = 1.0
        check('unit-piston-on-the-centre-changes-exactly-the-centre', bool(np.allclose(ka.compose_opd(pc, zs), cfull.astype(float))))
        c1, c2 = rng.standard_normal(zs.shape), rng.standard_normal(zs.shape)
        k1, k2 = rng.standard_normal(zc.shape), rng.standard_normal(zc.shape)
        a, b = float(rng.standard_normal()), float(rng.standard_normal())
        o1, o2, o12 = ka.compose_opd(k1, c1), ka.compose_opd(k2, c2), ka.compose_opd(a * k1 + b * k2, a * c1 + b * c2)
        check('linear-in-the-coefficients', bool(np.allclose(o12, a * o1 + b * o2, atol=1e-9)))
        only = zs.copy()
        only[s] = c1[s]
        o_s = ka.compose_opd(zc, only)
        check('one-segment-coefficients-confined-to-that-segment', bool((o_s[~fulls[s]] == 0).all()))
        union = cfull.copy()
        for f in fulls:
            union |= f
        check('nothing-outside-the-segments', bool((o1[~union] == 0).all()))
        base = rng.standard_normal(x.shape)
        check('out-argument-accumulates', bool(np.allclose(ka.compose_opd(k1, c1, out=base.copy()), base + o1, atol=1e-9)))


# ------------------------------------------------------------------------------------------ OPD composition: the per-segment step
@harness('C18', 'compose_opd/segment-step', variants=[dict(cls=c, nseg=k) for c in ('hex', 'keystone') for k in (1, 2)],
         fuc=['prysm.segmented.CompositeHexagonalAperture.compose_opd', 'prysm.segmented.CompositeKeystoneAperture.compose_opd',
              'prysm.polynomials.sum_of_2d_modes'])
def compose_opd_step(v):
    """compose_opd is a fold of one step per segment over the accumulated map.  With an ARBITRARY accumulated map handed in through
    `out`, arbitrary segment windows inside the array, arbitrary local masks, bases and coefficients (any number of modes), one
    segment adds, on the samples of its window where its mask is set, the modal sum of its own coefficients, and changes nothing
    else: OPD is confined to its segment, linear in that segment's coefficients, and a unit piston on a mode that is identically 1
    adds exactly the mask.  (One and two segments are run through the real loop; the n-segment statement is this step repeated.)"""
    H, W = Int('H', 1), Int('W', 1)
    K = Int('K', 1)
    nseg = v['nseg']
    sg = get('prysm.segmented')
    cls = sg.CompositeHexagonalAperture if v['cls'] == 'hex' else sg.CompositeKeystoneAperture
    ap = object.__new__(cls)
    ap.x = Array('x', (H, W))
    out0 = Array('out0', (H, W))
    wins, masks, bases, coefs = [], [], [], []
    for s in range(nseg):
        y0, y1, x0, x1 = Int('y0_%d' % s, 0), Int('y1_%d' % s, 0), Int('x0_%d' % s, 0), Int('x1_%d' % s, 0)
        assume(And(y0 < y1, y1 <= H, x0 < x1, x1 <= W))
        wins.append((slice(y0, y1), slice(x0, x1)))
        masks.append(Array('mask%d' % s, (y1 - y0, x1 - x0), 'b'))
        bases.append(Array('base%d' % s, (K, y1 - y0, x1 - x0)))
        coefs.append(Array('c%d' % s, (K,)))
    prev = out0 * 1.0          # compose_opd accumulates into `out` in place: keep the map as it was handed in
    if v['cls'] == 'hex':
        ap.windows, ap.local_masks, ap.opd_bases = wins, masks, bases
        res = ap.compose_opd(coefs, out=out0)
        segs = list(range(nseg))
    else:
        # the keystone class treats the centre segment separately: make it the first of the segments above
        ap.center_window, ap.center_mask = wins[0], masks[0]
        ap.segment_windows, ap.segment_masks, ap.opd_bases = wins[1:], masks[1:], bases
        res = ap.compose_opd(coefs[0], coefs[1:], out=out0)
        segs = list(range(nseg))
    i, j = idx(H, 'i'), idx(W, 'j')
    want = elem(prev, i, j)
    for s in segs:
        (sy, sx) = wins[s]
        inside = And(i >= sy.start, i < sy.stop, j >= sx.start, j < sx.stop)
        li, lj = ite(inside, i - sy.start, 0), ite(inside, j - sx.start, 0)
        modal = sigma(K, lambda k, s=s, li=li, lj=lj: elem(bases[s], k, li, lj) * elem(coefs[s], k))
        want = want + ite(And(inside, elem(masks[s], li, lj)), 1, 0) * modal
    check('returns-the-accumulated-map', shape_is(res, H, W))
    check('adds-the-masked-modal-sum-inside-the-window-and-nothing-elsewhere', eq(elem(res, i, j), want))
