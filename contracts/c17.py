"""C17 — thin-film and Fresnel coefficients conserve energy and agree with each other."""
from pvc.api import *

TF = 'prysm.thinfilm.'


def _interface():
    """two lossless media below total internal reflection; theta1 from the library's own Snell routine."""
    n0, n1 = Real('n0', 1), Real('n1', 1)
    th0 = Real('th0', 0)
    c0, s0 = cos(th0), sin(th0)
    assume(And(c0 > 0, s0 >= 0))                 # 0 <= theta0 < 90 deg
    assume(n0 * s0 < n1)                         # below total internal reflection
    th1 = call(TF + 'snell_aor', n0, n1, th0, degrees=False)
    return n0, n1, th0, th1, c0, s0


@harness('C17', 'snell_aor/def', fuc=['prysm.thinfilm.snell_aor'])
def snell_def():
    """n0 sin(theta0) = n1 sin(theta1), refracted ray in the forward half space."""
    n0, n1, th0, th1, c0, s0 = _interface()
    check('snell', eq(n1 * sin(th1), n0 * s0))
    check('forward', cos(th1) > 0)


@harness('C17', 'fresnel/energy', variants=['s', 'p'],
         fuc=['prysm.thinfilm.fresnel_rs', 'prysm.thinfilm.fresnel_ts', 'prysm.thinfilm.fresnel_rp', 'prysm.thinfilm.fresnel_tp'])
def fresnel_energy(pol):
    """r^2 + (n1 cos theta1)/(n0 cos theta0) t^2 = 1 for both polarisations."""
    n0, n1, th0, th1, c0, s0 = _interface()
    r = call(TF + 'fresnel_r' + pol, n0, n1, th0, th1)
    t = call(TF + 'fresnel_t' + pol, n0, n1, th0, th1)
    c1 = cos(th1)
    check('energy', approx(r * r + (n1 * c1) / (n0 * c0) * t * t, 1))
    if pol == 's':
        check('continuity', approx(1 + r, t))          # tangential E continuous across the interface


@harness('C17', 'fresnel_rp/brewster', fuc=['prysm.thinfilm.brewsters_angle', 'prysm.thinfilm.fresnel_rp', 'prysm.thinfilm.snell_aor'])
def brewster():
    """p reflection vanishes at Brewster's angle as returned by brewsters_angle."""
    n0, n1 = Real('n0', 1), Real('n1', 1)
    thb = call(TF + 'brewsters_angle', n0, n1, deg=False)
    th1 = call(TF + 'snell_aor', n0, n1, thb, degrees=False)
    r = call(TF + 'fresnel_rp', n0, n1, thb, th1)
    check('rp-zero', approx(r, 0, 1e-12))


def _layer(pol, k, lam):
    n = Real('n%d' % k, 1)
    d = Real('d%d' % k, 0)
    return n, d


@harness('C17', 'characteristic_matrix/class', variants=['s', 'p'],
         fuc=['prysm.thinfilm.characteristic_matrix_s', 'prysm.thinfilm.characteristic_matrix_p'])
def charmat_class(pol):
    """a lossless layer's matrix is [[a, -i b], [-i c, d]] with a, b, c, d real and ad + bc = 1 (class M);
    zero thickness gives the identity, a half-wave (beta = pi) layer gives minus the identity."""
    lam = Real('lam', pos=True)
    n, d = Real('n', 1), Real('d', 0)
    th = Real('th')
    assume(cos(th) > 0)
    M = call(TF + 'characteristic_matrix_' + pol, lam, d, n, th)
    check('shape', shape_is(M, 2, 2))
    a, b, c, dd = elem(M, 0, 0), elem(M, 0, 1), elem(M, 1, 0), elem(M, 1, 1)
    check('real-diagonal', And(eq(a.imag, 0), eq(dd.imag, 0)))
    check('imag-offdiagonal', And(eq(b.real, 0), eq(c.real, 0)))
    check('unimodular', approx(a.real * dd.real + (-b.imag) * (-c.imag), 1))
    M0 = call(TF + 'characteristic_matrix_' + pol, lam, 0, n, th)
    check('zero-thickness-identity', And(eq(elem(M0, 0, 0), 1), eq(elem(M0, 1, 1), 1), eq(elem(M0, 0, 1), 0), eq(elem(M0, 1, 0), 0)))


def _stack(L, batch=None):
    """L lossless layers (the last one is the exit medium), ambient n0, incidence below TIR everywhere."""
    n0 = Real('n0', 1)
    aoi = Real('aoi', 0)          # radians after np.radians: we pass degrees = aoi*180/pi
    lam = Real('lam', pos=True)
    ns = [Real('n%d' % k, 1) for k in range(1, L + 1)]
    ds = [Real('d%d' % k, 0) for k in range(1, L + 1)]
    return n0, aoi, lam, ns, ds


@harness('C17', 'multilayer_stack_rt/energy-3-layers', variants=[dict(pol='s', L=3)], tiers=('thorough',),
         fuc=['prysm.thinfilm.multilayer_stack_rt'])
def stack_energy3(v):
    """three-layer instance of multilayer_stack_rt/energy through the real code (thorough tier: the polynomial
    identity needs ~10-40 s for s polarisation; the p instance does not finish within the Groebner budget and is not attempted;
    every layer count and both polarisations are covered modularly by class-M + closure + multilayer_matrix/class-M)."""
    stack_energy(v)


@harness('C17', 'multilayer_stack_rt/energy', variants=[dict(pol=p, L=L) for p in ('s', 'p') for L in (1, 2)],
         fuc=['prysm.thinfilm.multilayer_stack_rt', 'prysm.thinfilm.multilayer_matrix_s', 'prysm.thinfilm.multilayer_matrix_p',
              'prysm.thinfilm.characteristic_matrix_s', 'prysm.thinfilm.characteristic_matrix_p', 'prysm.thinfilm.rtot',
              'prysm.thinfilm.ttot', 'prysm.thinfilm.snell_aor'])
def stack_energy(v):
    """R + (n_N cos theta_N)/(n0 cos theta_0) T = 1 for a stack of lossless layers."""
    L, pol = v['L'], v['pol']
    n0, aoi, lam, ns, ds = _stack(L)
    c0, s0 = cos(aoi * pi / 180), sin(aoi * pi / 180)
    assume(And(c0 > 0, s0 >= 0))
    for n in ns:
        assume(n0 * s0 < n)
    if L == 1:
        r, t = call(TF + 'multilayer_stack_rt', [(n, d) for n, d in zip(ns, ds)], lam, pol, aoi=aoi, ambient_index=n0)
    else:
        # division safety (A00 != 0 ...) for any layer count is carried by characteristic_matrix/class,
        # lemma/class-M-closed-under-product and multilayer_matrix/class-M (modular); the scalar divisions are those of L = 1
        with no_div_safety():
            r, t = call(TF + 'multilayer_stack_rt', [(n, d) for n, d in zip(ns, ds)], lam, pol, aoi=aoi, ambient_index=n0)
    thN = call(TF + 'snell_aor', n0, ns[-1], aoi * pi / 180, degrees=False)
    cN = cos(thN)
    R, T = abs2(r), abs2(t)
    check('energy', approx(R + (ns[-1] * cN) / (n0 * c0) * T, 1))


@harness('C17', 'stack/single-interface=fresnel', variants=['s', 'p'],
         fuc=['prysm.thinfilm.multilayer_stack_rt', 'prysm.thinfilm.fresnel_rs', 'prysm.thinfilm.fresnel_rp',
              'prysm.thinfilm.fresnel_ts', 'prysm.thinfilm.fresnel_tp'])
def single_interface(pol):
    """a one-layer stack (the layer is the exit medium) has the reflectance and transmittance of the bare
    interface as given by the Fresnel coefficient functions, whatever the layer's thickness."""
    n0, aoi, lam, ns, ds = _stack(1)
    th0 = aoi * pi / 180
    c0, s0 = cos(th0), sin(th0)
    assume(And(c0 > 0, s0 >= 0, n0 * s0 < ns[0]))
    r, t = call(TF + 'multilayer_stack_rt', [(ns[0], ds[0])], lam, pol, aoi=aoi, ambient_index=n0)
    th1 = call(TF + 'snell_aor', n0, ns[0], th0, degrees=False)
    fr = call(TF + 'fresnel_r' + pol, n0, ns[0], th0, th1)
    ft = call(TF + 'fresnel_t' + pol, n0, ns[0], th0, th1)
    check('R', approx(abs2(r), fr * fr))
    check('T', approx(abs2(t), ft * ft))


@harness('C17', 'stack/zero-thickness-layer', variants=[dict(pol=p, where=w) for p in ('s', 'p') for w in ('front', 'middle')],
         fuc=['prysm.thinfilm.multilayer_stack_rt'])
def zero_thickness(v):
    """inserting a layer of thickness zero (any index) changes neither r nor t."""
    pol = v['pol']
    n0, aoi, lam, ns, ds = _stack(2)
    nz = Real('nz', 1)
    th0 = aoi * pi / 180
    c0, s0 = cos(th0), sin(th0)
    assume(And(c0 > 0, s0 >= 0, n0 * s0 < ns[0], n0 * s0 < ns[1], n0 * s0 < nz))
    base = [(ns[0], ds[0]), (ns[1], ds[1])]
    if v['where'] == 'front':
        more = [(nz, 0)] + base
    else:
        more = [base[0], (nz, 0), base[1]]
    with no_div_safety():      # see multilayer_stack_rt/energy
        r0, t0 = call(TF + 'multilayer_stack_rt', base, lam, pol, aoi=aoi, ambient_index=n0)
        r1, t1 = call(TF + 'multilayer_stack_rt', more, lam, pol, aoi=aoi, ambient_index=n0)
    check('r-unchanged', approx(r1, r0))
    check('t-unchanged', approx(t1, t0))


@harness('C17', 'stack/half-wave-absentee', variants=[dict(pol=p, m=m) for p in ('s', 'p') for m in (1, 2)],
         fuc=['prysm.thinfilm.multilayer_stack_rt', 'prysm.thinfilm.characteristic_matrix_s', 'prysm.thinfilm.characteristic_matrix_p'])
def half_wave(v):
    """a layer of optical thickness n d cos(theta) = m lambda/2 (half-wave absentee layer, m = 1, 2) on top of a
    substrate leaves the reflectance and transmittance of the bare substrate unchanged, at any incidence."""
    pol, m = v['pol'], v['m']
    n0, aoi, lam, ns, ds = _stack(2)
    th0 = aoi * pi / 180
    c0, s0 = cos(th0), sin(th0)
    assume(And(c0 > 0, s0 >= 0, n0 * s0 < ns[0], n0 * s0 < ns[1]))
    th1 = call(TF + 'snell_aor', n0, ns[0], th0, degrees=False)
    d1 = m * lam / (2 * ns[0] * cos(th1))
    with no_div_safety():      # see multilayer_stack_rt/energy
        r0, t0 = call(TF + 'multilayer_stack_rt', [(ns[1], ds[1])], lam, pol, aoi=aoi, ambient_index=n0)
        r1, t1 = call(TF + 'multilayer_stack_rt', [(ns[0], d1), (ns[1], ds[1])], lam, pol, aoi=aoi, ambient_index=n0)
    check('r-unchanged', approx(r1, r0, 1e-7))              # hence R = |r|^2 unchanged
    check('T-unchanged', approx(abs2(t1), abs2(t0), 1e-7))


@lemma('C17', 'lemma/class-M-closed-under-product')
def class_closed():
    """M = {[[a, -ib], [-ic, d]] : a,b,c,d real, ad + bc = 1} is closed under matrix product; with
    characteristic_matrix/class this gives reduce(matmul, Mjs) in M for every layer count (induction on the list)."""
    a1, b1, c1, d1 = Real('a1'), Real('b1'), Real('c1'), Real('d1')
    a2, b2, c2, d2 = Real('a2'), Real('b2'), Real('c2'), Real('d2')
    assume(And(a1 * d1 + b1 * c1 == 1, a2 * d2 + b2 * c2 == 1))
    M1 = [[cx(a1), cx(0, -b1)], [cx(0, -c1), cx(d1)]]
    M2 = [[cx(a2), cx(0, -b2)], [cx(0, -c2), cx(d2)]]
    P = [[M1[i][0] * M2[0][j] + M1[i][1] * M2[1][j] for j in range(2)] for i in range(2)]
    check('diag-real', And(P[0][0].imag == 0, P[1][1].imag == 0))
    check('offdiag-imag', And(P[0][1].real == 0, P[1][0].real == 0))
    check('unimodular', P[0][0].real * P[1][1].real + (-P[0][1].imag) * (-P[1][0].imag) == 1)


@lemma('C17', 'lemma/class-M-energy', variants=['s', 'p'])
def class_energy(pol):
    """for any M in class M, the A matrix built as in multilayer_matrix_{s,p} gives
    |r|^2 + (n_N cos_N)/(n0 cos_0) |t|^2 = 1  (lossless stack of ANY layer count)."""
    a, b, c, d = Real('a'), Real('b'), Real('c'), Real('d')
    n0, nN = Real('n0', 1), Real('nN', 1)
    c0, cN = Real('c0', pos=True), Real('cN', pos=True)
    assume(a * d + b * c == 1)
    M = [[cx(a), cx(0, -b)], [cx(0, -c), cx(d)]]
    if pol == 's':
        t2 = [[n0 * c0, 1], [n0 * c0, -1]]
        t4 = [1, nN * cN]            # first column of term4
    else:
        t2 = [[n0, c0], [n0, -c0]]
        t4 = [cN, nN]
    col = [M[i][0] * t4[0] + M[i][1] * t4[1] for i in range(2)]
    A00 = (t2[0][0] * col[0] + t2[0][1] * col[1]) / (2 * n0 * c0)
    A10 = (t2[1][0] * col[0] + t2[1][1] * col[1]) / (2 * n0 * c0)
    R = abs2(A10) / abs2(A00)
    T = 1 / abs2(A00)
    check('energy', R + (nN * cN) / (n0 * c0) * T == 1)


@harness('C17', 'stack/batched=elementwise', variants=[dict(pol=p, L=L, rank=r) for p in ('s', 'p') for L in (1, 2) for r in (1, 2)],
         fuc=['prysm.thinfilm.multilayer_stack_rt'])
def batched(v):
    """an array-valued stack (index and thickness maps of symbolic extent) gives, at every element, the
    value of the scalar computation for that element's indices and thicknesses."""
    pol, L, rank = v['pol'], v['L'], v['rank']
    n0 = Real('n0', 1)
    aoi = Real('aoi', 0)
    lam = Real('lam', pos=True)
    shp = (Int('B0', 1),) if rank == 1 else (Int('B0', 1), Int('B1', 1))
    st = Array('stack', (L, 2) + shp, lo=0)
    e = tuple(idx(d, 'e%d' % k) for k, d in enumerate(shp))
    th0 = aoi * pi / 180
    c0, s0 = cos(th0), sin(th0)
    assume(And(c0 > 0, s0 >= 0))
    for k in range(L):
        assume(And(elem(st, k, 0, *e) >= 1, n0 * s0 < elem(st, k, 0, *e)))
    with no_div_safety():      # the divisions are those of the scalar computation (multilayer_stack_rt/energy)
        rb, tb = call(TF + 'multilayer_stack_rt', st, lam, pol, aoi=aoi, ambient_index=n0)
        check('shape', And(shape_is(rb, *shp), shape_is(tb, *shp)))
        rs, ts = call(TF + 'multilayer_stack_rt', [(elem(st, k, 0, *e), elem(st, k, 1, *e)) for k in range(L)], lam, pol,
                      aoi=aoi, ambient_index=n0)
        check('r', approx(elem(rb, *e), rs))
        check('t', approx(elem(tb, *e), ts))


@harness('C17', 'multilayer_matrix/class-M', variants=['s', 'p'],
         fuc=['prysm.thinfilm.multilayer_matrix_s', 'prysm.thinfilm.multilayer_matrix_p', 'prysm.thinfilm.rtot', 'prysm.thinfilm.ttot'])
def mm_class(pol):
    """modular step on the real code: for ANY product matrix M in class M (any number of lossless layers),
    the A matrix has A00 != 0 (rtot/ttot never divide by zero) and R + (nN cN)/(n0 c0) T = 1."""
    a, b, c, d = Real('a'), Real('b'), Real('c'), Real('d')
    n0, nN = Real('n0', 1), Real('nN', 1)
    th0, thN = Real('th0'), Real('thN')
    c0, cN = cos(th0), cos(thN)
    if MODE != 'symbolic' and a != 0:
        d = (1 - b * c) / a          # concrete runs: draw a member of the class (unimodular) instead of waiting for one
    assume(And(c0 > 0, cN > 0, (a * d + b * c == 1) if MODE == 'symbolic' else approx(a * d + b * c, 1, 1e-9)))
    if MODE == 'symbolic':
        from pvc.symnp import asarray
        M = asarray([[cx(a), cx(0, -b)], [cx(0, -c), cx(d)]])
    else:
        M = __import__('numpy').array([[a, -1j * b], [-1j * c, d]])
    A = call(TF + 'multilayer_matrix_' + pol, n0, th0, [M], nN, thN)
    check('A00-nonzero', abs2(elem(A, 0, 0)) > 0)
    r = call(TF + 'rtot', A)
    t = call(TF + 'ttot', A)
    check('energy', approx(abs2(r) + (nN * cN) / (n0 * c0) * abs2(t), 1))


@harness('C17', 'bounded/stacks-against-the-textbook-matrix-method', kind='bounded', variants=['oracle', 'labels-fresnel-brewster', 'batched-nd'],
         fuc=['prysm.thinfilm.multilayer_stack_rt', 'prysm.thinfilm.multilayer_matrix_s', 'prysm.thinfilm.multilayer_matrix_p',
              'prysm.thinfilm.characteristic_matrix_s', 'prysm.thinfilm.characteristic_matrix_p', 'prysm.thinfilm.rtot', 'prysm.thinfilm.ttot',
              'prysm.thinfilm.snell_aor', 'prysm.thinfilm.fresnel_rs', 'prysm.thinfilm.fresnel_rp', 'prysm.thinfilm.fresnel_ts',
              'prysm.thinfilm.fresnel_tp', 'prysm.thinfilm.brewsters_angle'])
def bounded_stacks(which):
    """BOUNDED (complex indices -- absorbing layers -- and the polarisation label as a string are outside the real-valued contract
    model): seeded stacks of 1..6 layers, lossless and absorbing (n + ik, k in [0, 0.5]), thickness 0..0.6 um, every angle below the
    critical angle of each layer, ambient index 1..1.5, polarisation labels 'p' 'P' 's' 'S', against an independent
    characteristic-matrix computation written from the textbook in the harness (admittances eta_s = n cos, eta_p = n / cos;
    R = |(eta0 B - C)/(eta0 B + C)|^2, T = 4 eta0 Re(eta_sub)/|eta0 B + C|^2); R + T <= 1 with equality for lossless stacks; one-layer
    stacks against the Fresnel functions and Brewster's angle under every label; N-D batched stacks against the per-element loop."""
    import numpy as np
    rng = np.random.default_rng(Int('seed', 0, 10 ** 6))
    tf = get('prysm.thinfilm')
    label = str(rng.choice(['p', 'P', 's', 'S']))
    pol = label.lower()
    n0 = float(rng.uniform(1, 1.5))
    lam = float(rng.uniform(0.4, 2.0))
    aoi = float(rng.uniform(0, 80)) if rng.random() < 0.8 else 0.0
    if n0 * np.sin(np.radians(aoi)) >= 1.29:
        aoi = 20.0

    def oracle(stack):
        s = n0 * np.sin(np.radians(aoi))

        def eta(n):
            c = np.sqrt(1 - (s / n) ** 2 + 0j)
            return (n * c if pol == 's' else n / c), c
        M = np.eye(2, dtype=complex)
        for n, d in stack[:-1]:
            e, c = eta(n)
            dl = 2 * np.pi * n * d * c / lam
            M = M @ np.array([[np.cos(dl), -1j * np.sin(dl) / e], [-1j * e * np.sin(dl), np.cos(dl)]])
        es, e0 = eta(stack[-1][0])[0], eta(n0)[0]
        B, C = M @ np.array([1, es])
        return abs((e0 * B - C) / (e0 * B + C)) ** 2, 4 * e0.real * es.real / abs(e0 * B + C) ** 2

    def RT(stack, lab=label):
        r, t = tf.multilayer_stack_rt(stack, lam, lab, aoi=aoi, ambient_index=n0)
        nN = complex(stack[-1][0]).real
        cN = np.sqrt(1 - (n0 * np.sin(np.radians(aoi)) / nN) ** 2)
        return abs(r) ** 2, nN * cN / (n0 * np.cos(np.radians(aoi))) * abs(t) ** 2
    if which == 'oracle':
        L = int(rng.integers(1, 7))
        absorbing = rng.random() < 0.6
        stack = [(complex(rng.uniform(1.3, 2.5), rng.uniform(0, 0.5) if (absorbing and rng.random() < 0.7) else 0.0), float(rng.uniform(0, 0.6)))
                 for _ in range(L - 1)] + [(complex(rng.uniform(1.3, 2.5)), float(rng.uniform(0, 1)))]
        lossless = all(complex(n).imag == 0 for n, _ in stack)
        if lossless and rng.random() < 0.5:
            stack = [(n.real, d) for n, d in stack]
        R, T = RT(stack)
        Ro, To = oracle(stack)
        check('reflectance-is-the-textbook-value', bool(np.isclose(R, Ro, rtol=1e-9, atol=1e-12)))
        check('transmittance-is-the-textbook-value', bool(np.isclose(T, To, rtol=1e-9, atol=1e-12)))
        check('R+T<=1', bool(R + T <= 1 + 1e-9))
        if lossless:
            check('R+T=1-for-lossless-layers', bool(np.isclose(R + T, 1, rtol=1e-9)))
        Rl, Tl = RT(stack, lab=label.swapcase())
        check('label-case-does-not-matter', bool(np.isclose(Rl, R, rtol=1e-12) and np.isclose(Tl, T, rtol=1e-12)))
    elif which == 'labels-fresnel-brewster':
        n1, d1 = float(rng.uniform(1.3, 2.5)), float(rng.uniform(0, 1))
        th0 = np.radians(aoi)
        th1 = tf.snell_aor(n0, n1, th0, degrees=False)
        fr = getattr(tf, 'fresnel_r' + pol)(n0, n1, th0, th1)
        ft = getattr(tf, 'fresnel_t' + pol)(n0, n1, th0, th1)
        r, t = tf.multilayer_stack_rt([(n1, d1)], lam, label, aoi=aoi, ambient_index=n0)
        check('one-layer-stack-is-the-fresnel-interface', bool(np.isclose(abs(r) ** 2, abs(fr) ** 2, rtol=1e-9, atol=1e-14) and np.isclose(abs(t) ** 2, abs(ft) ** 2, rtol=1e-9)))
        thb = float(tf.brewsters_angle(n0, n1, deg=True))
        for lab in ('p', 'P'):
            rb, _ = tf.multilayer_stack_rt([(n1, d1)], lam, lab, aoi=thb, ambient_index=n0)
            check('rp-vanishes-at-brewster-under-label-' + lab, bool(abs(rb) < 1e-9))
    else:
        L = int(rng.integers(1, 4))
        shp = tuple(int(v) for v in rng.integers(1, 4, int(rng.integers(1, 4))))
        nn = rng.uniform(1.3, 2.5, (L,) + shp)
        dd = rng.uniform(0, 0.6, (L,) + shp)
        stack = np.stack([nn, dd], axis=1)           # (L, 2, ...)
        rb, tb = tf.multilayer_stack_rt(stack, lam, label, aoi=aoi, ambient_index=n0)
        check('batched-shape', np.shape(rb) == shp and np.shape(tb) == shp)
        ok = True
        for e in np.ndindex(*shp):
            rs, ts = tf.multilayer_stack_rt([(float(nn[(k,) + e]), float(dd[(k,) + e])) for k in range(L)], lam, label, aoi=aoi, ambient_index=n0)
            ok &= bool(np.isclose(rb[e], rs, rtol=1e-9, atol=1e-12) and np.isclose(tb[e], ts, rtol=1e-9, atol=1e-12))
        check('batched-equals-the-per-element-loop', ok)
