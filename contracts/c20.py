"""C20 — Jones and Mueller calculus preserve the algebra of polarisation optics."""
from pvc.api import *

P = 'prysm.x.polarization.'


def m2(A):
    """2x2 (or nxn) matrix as nested python list of scalars"""
    n = 2
    return [[elem(A, i, j) for j in range(n)] for i in range(n)]


def mmul(A, B):
    n = len(A)
    return [[sum_(A[i][k] * B[k][j] for k in range(n)) for j in range(n)] for i in range(n)]


def sum_(it):
    acc = 0
    for v in it:
        acc = acc + v
    return acc


def conj(z):
    return z.conjugate() if hasattr(z, 'conjugate') else z


def dagger(A):
    n = len(A)
    return [[conj(A[j][i]) for j in range(n)] for i in range(n)]


def is_identity(A, tol=None):
    n = len(A)
    return And(*[approx(A[i][j], 1 if i == j else 0, tol) for i in range(n) for j in range(n)])


def mat_eq(A, B):
    n = len(A)
    return And(*[approx(A[i][j], B[i][j]) for i in range(n) for j in range(n)])


@harness('C20', 'jones_rotation_matrix/orthogonal', fuc=['prysm.x.polarization.jones_rotation_matrix'])
def rot_orth():
    th = Real('th')
    R = m2(call(P + 'jones_rotation_matrix', th))
    Rm = m2(call(P + 'jones_rotation_matrix', -th))
    check('orthogonal', is_identity(mmul(dagger(R), R)))
    check('inverse-is-negative-angle', mat_eq(Rm, dagger(R)))
    check('entries', And(approx(R[0][0], cos(th)), approx(R[0][1], sin(th)), approx(R[1][0], -sin(th)), approx(R[1][1], cos(th))))


@harness('C20', 'retarders/unitary', variants=['linear', 'half', 'quarter'],
         fuc=['prysm.x.polarization.linear_retarder', 'prysm.x.polarization.half_wave_plate', 'prysm.x.polarization.quarter_wave_plate'])
def retarder_unitary(kind):
    """J^H J = I for every retardance and orientation."""
    th = Real('th')
    if kind == 'linear':
        J = call(P + 'linear_retarder', Real('ret'), theta=th)
    elif kind == 'half':
        J = call(P + 'half_wave_plate', theta=th)
    else:
        J = call(P + 'quarter_wave_plate', theta=th)
    check('shape', shape_is(J, 2, 2))
    J = m2(J)
    check('unitary', is_identity(mmul(dagger(J), J)))


@harness('C20', 'vector_vortex_retarder/unitary', variants=[1, 2], fuc=['prysm.x.polarization.vector_vortex_retarder'])
def vortex_unitary(rank):
    """every element of a vortex retarder is unitary for all retardances, charges, azimuths and rotations."""
    shp = (Int('B0', 1),) if rank == 1 else (Int('B0', 1), Int('B1', 1))
    theta = Array('theta', shp)
    charge = Int('charge')
    ret = Real('ret')
    rot = Real('rot')
    e = tuple(idx(d, 'e%d' % k) for k, d in enumerate(shp))
    J = call(P + 'vector_vortex_retarder', charge, theta, retardance=ret, rotate=rot)
    check('shape', shape_is(J, *shp, 2, 2))
    Je = [[elem(J, *e, i, j) for j in range(2)] for i in range(2)]
    check('unitary', is_identity(mmul(dagger(Je), Je)))


@harness('C20', 'linear_polarizer/idempotent-malus', fuc=['prysm.x.polarization.linear_polarizer', 'prysm.x.polarization.linear_diattenuator'])
def polarizer():
    th = Real('th')
    Pm = m2(call(P + 'linear_polarizer', theta=th))
    check('idempotent', mat_eq(mmul(Pm, Pm), Pm))
    # Malus: x-polarised unit input through a polariser at theta keeps cos^2(theta) of the power
    out = [Pm[0][0], Pm[1][0]]
    check('malus', approx(abs2(out[0]) + abs2(out[1]), cos(th) * cos(th)))
    check('hermitian', mat_eq(dagger(Pm), Pm))


@harness('C20', 'rotate/conjugation', variants=['retarder', 'diattenuator', 'vortex'],
         fuc=['prysm.x.polarization.linear_retarder', 'prysm.x.polarization.linear_diattenuator',
              'prysm.x.polarization.vector_vortex_retarder', 'prysm.x.polarization.jones_rotation_matrix'])
def rotate_conj(kind):
    """element(theta) = R(-theta) element(0) R(theta)."""
    th = Real('th')
    R, Rm = m2(call(P + 'jones_rotation_matrix', th)), m2(call(P + 'jones_rotation_matrix', -th))
    if kind == 'retarder':
        ret = Real('ret')
        J0, Jt = m2(call(P + 'linear_retarder', ret, theta=0)), m2(call(P + 'linear_retarder', ret, theta=th))
    elif kind == 'diattenuator':
        al = Real('alpha', 0, 1)
        J0, Jt = m2(call(P + 'linear_diattenuator', al, theta=0)), m2(call(P + 'linear_diattenuator', al, theta=th))
    else:
        B = Int('B0', 1)
        az = Array('az', (B,))
        az2 = az.copy()
        e = idx(B, 'e0')
        ret, charge = Real('ret'), Int('charge')
        A0 = call(P + 'vector_vortex_retarder', charge, az, retardance=ret, rotate=0)
        At = call(P + 'vector_vortex_retarder', charge, az2, retardance=ret, rotate=th)
        J0 = [[elem(A0, e, i, j) for j in range(2)] for i in range(2)]
        Jt = [[elem(At, e, i, j) for j in range(2)] for i in range(2)]
    check('conjugation', mat_eq(Jt, mmul(mmul(Rm, J0), R)))


def _jones(name):
    """arbitrary complex 2x2 matrix as a symbolic array"""
    return Array(name, (2, 2), 'c')


def m4(A):
    return [[elem(A, i, j) for j in range(4)] for i in range(4)]


@harness('C20', 'jones_to_mueller/multiplicative', variants=[True, False],
         fuc=['prysm.x.polarization.jones_to_mueller', 'prysm.x.polarization.broadcast_kron'])
def j2m_mult(broadcast):
    """M(J1 J2) = M(J1) M(J2) for arbitrary complex 2x2 J1, J2; M is real."""
    J1, J2 = _jones('J1'), _jones('J2')
    from_ = get(P + 'jones_to_mueller')
    if MODE == 'symbolic':
        J12 = J1 @ J2
    else:
        J12 = J1 @ J2
    M1, M2, M12 = from_(J1, broadcast=broadcast), from_(J2, broadcast=broadcast), from_(J12, broadcast=broadcast)
    check('shape', shape_is(M12, 4, 4))
    A, B, C = m4(M1), m4(M2), m4(M12)
    prod = [[sum_(A[i][k] * B[k][j] for k in range(4)) for j in range(4)] for i in range(4)]
    for i in range(4):
        check('row-%d' % i, And(*[approx(C[i][j], prod[i][j]) for j in range(4)]))
    check('real', kind_of(M12)[0] == 'f')


@harness('C20', 'jones_to_mueller/unitary-to-orthogonal', fuc=['prysm.x.polarization.jones_to_mueller'])
def j2m_orth():
    """a unitary Jones matrix maps to an orthogonal Mueller matrix with M00 = 1."""
    J = _jones('J')
    Jm = m2(J)
    assume(is_identity(mmul(dagger(Jm), Jm), 1e-9)) if MODE == 'symbolic' else None
    if MODE != 'symbolic':
        import numpy as _np
        q, _ = _np.linalg.qr(J)
        J = q
    M = m4(call(P + 'jones_to_mueller', J))
    check('M00', approx(M[0][0], 1))
    MtM = [[sum_(M[k][i] * M[k][j] for k in range(4)) for j in range(4)] for i in range(4)]
    for i in range(4):
        check('orthogonal-row-%d' % i, And(*[approx(MtM[i][j], 1 if i == j else 0) for j in range(4)]))


@harness('C20', 'pauli/reconstruct', fuc=['prysm.x.polarization.pauli_coefficients', 'prysm.x.polarization.pauli_spin_matrix'])
def pauli():
    """sum_k c_k sigma_k = J for arbitrary complex J."""
    J = _jones('J')
    cs = call(P + 'pauli_coefficients', J)
    sig = [m2(call(P + 'pauli_spin_matrix', k)) for k in range(4)]
    rec = [[sum_(cs[k] * sig[k][i][j] for k in range(4)) for j in range(2)] for i in range(2)]
    check('reconstruct', mat_eq(rec, m2(J)))
    # Pauli matrices: hermitian, square to identity
    for k in range(4):
        check('sigma%d-involution' % k, And(is_identity(mmul(sig[k], sig[k])), mat_eq(dagger(sig[k]), sig[k])))


def _batch(rank):
    shp = (Int('B0', 1),) if rank == 1 else (Int('B0', 1), Int('B1', 1))
    e = tuple(idx(d, 'e%d' % k) for k, d in enumerate(shp))
    return shp, e


@harness('C20', 'batched=elementwise', variants=[dict(what=w, rank=r) for w in ('rotation', 'retarder', 'diattenuator', 'mueller', 'pauli', 'kron')
                                                  for r in (1, 2)],
         fuc=['prysm.x.polarization.jones_rotation_matrix', 'prysm.x.polarization.linear_retarder', 'prysm.x.polarization.linear_diattenuator',
              'prysm.x.polarization.jones_to_mueller', 'prysm.x.polarization.pauli_coefficients', 'prysm.x.polarization.broadcast_kron',
              'prysm.x.polarization._empty_jones'])
def batched(v):
    """a spatially varying element equals, at each sample, the element built from that sample's parameters."""
    shp, e = _batch(v['rank'])
    what = v['what']
    if what == 'rotation':
        th = Array('th', shp)
        B = call(P + 'jones_rotation_matrix', th, shape=shp)
        S = call(P + 'jones_rotation_matrix', elem(th, *e))
        n = 2
    elif what == 'retarder':
        ret = Array('ret', shp)
        th = Real('th')
        B = call(P + 'linear_retarder', ret, theta=th, shape=shp)
        S = call(P + 'linear_retarder', elem(ret, *e), theta=th)
        n = 2
    elif what == 'diattenuator':
        al = Real('alpha', 0, 1)
        th = Real('th')
        B = call(P + 'linear_diattenuator', al, theta=th, shape=shp)
        S = call(P + 'linear_diattenuator', al, theta=th)
        n = 2
    elif what == 'mueller':
        J = Array('J', shp + (2, 2), 'c')
        B = call(P + 'jones_to_mueller', J)
        S = call(P + 'jones_to_mueller', J[e] if MODE != 'symbolic' else J[e])
        n = 4
    elif what == 'kron':
        A_, B_ = Array('A', shp + (2, 2), 'c'), Array('Bm', shp + (2, 2), 'c')
        B = call(P + 'broadcast_kron', A_, B_)
        n = 4
        check('shape', shape_is(B, *shp, n, n))
        for i in range(2):
            for k in range(2):
                check('block-%d%d' % (i, k), And(*[approx(elem(B, *e, 2 * i + j, 2 * k + l), elem(A_, *e, i, k) * elem(B_, *e, j, l))
                                                  for j in range(2) for l in range(2)]))
        return
    else:
        J = Array('J', shp + (2, 2), 'c')
        cb = call(P + 'pauli_coefficients', J)
        cs = call(P + 'pauli_coefficients', J[e])
        for k in range(4):
            check('c%d' % k, And(shape_is(cb[k], *shp), approx(elem(cb[k], *e), cs[k])))
        return
    check('shape', shape_is(B, *shp, n, n))
    check('elementwise', And(*[approx(elem(B, *e, i, j), elem(S, i, j)) for i in range(n) for j in range(n)]))


@harness('C20', 'jones_adapter/componentwise', variants=[2, 4], fuc=['prysm.x.polarization.jones_adapter'])
def adapter(rank):
    """rank-2 input is forwarded unchanged; rank-4 input: out[..., a, b] = prop(J_ab) with the same extra arguments."""
    h, w = Int('h', 1), Int('w', 1)
    p, q = Real('p'), Real('q')
    calls = []

    def prop(E, gain, offset=0):
        calls.append(E)
        return E * gain + offset
    wrapped = call(P + 'jones_adapter', prop)
    i, j = idx(h, 'i'), idx(w, 'j')
    if rank == 2:
        E = Array('E', (h, w), 'c')
        out = wrapped(E, p, offset=q)
        check('forwarded', And(shape_is(out, h, w), approx(elem(out, i, j), elem(E, i, j) * p + q)))
        check('single-call', len(calls) == 1)
    else:
        E = Array('E', (h, w, 2, 2), 'c')
        out = wrapped(E, p, offset=q)
        check('shape', shape_is(out, h, w, 2, 2))
        check('four-calls', len(calls) == 4)
        for a in range(2):
            for b in range(2):
                check('component-%d%d' % (a, b), approx(elem(out, i, j, a, b), elem(E, i, j, a, b) * p + q))


@harness('C20', 'apply_polarization_optic/def', variants=['uniform', 'varying'], fuc=['prysm.x.polarization.apply_polarization_optic'])
def apply_optic(kind):
    """out[i,j,a,b] = field[i,j] * optic[(i,j,)a,b]."""
    h, w = Int('h', 1), Int('w', 1)
    f = Array('f', (h, w), 'c')
    i, j = idx(h, 'i'), idx(w, 'j')
    if kind == 'uniform':
        J = Array('J', (2, 2), 'c')
        out = call(P + 'apply_polarization_optic', f, J)
        get_ = lambda a, b: elem(J, a, b)
    else:
        J = Array('J', (h, w, 2, 2), 'c')
        out = call(P + 'apply_polarization_optic', f, J)
        get_ = lambda a, b: elem(J, i, j, a, b)
    check('shape', shape_is(out, h, w, 2, 2))
    check('value', And(*[approx(elem(out, i, j, a, b), elem(f, i, j) * get_(a, b)) for a in range(2) for b in range(2)]))


@harness('C20', 'bounded/jones-adapter-structured-fields', kind='bounded', fuc=['prysm.x.polarization.jones_adapter', 'prysm.x.polarization.add_jones_propagation'])
def bounded_adapter_sparse():
    """BOUNDED (data-dependent shortcuts such as `np.any(component)` are outside the symbolic subset): Jones fields of shape
    (h, w, 2, 2), h, w in 1..9, in which each of the four components is independently identically zero, constant or random,
    pushed through the adapter around an affine test routine and around the real prysm.propagation.focus: every component of the
    result is the routine applied to that component alone."""
    import numpy as np
    rng = np.random.default_rng(Int('seed', 0, 10 ** 6))
    pol = get('prysm.x.polarization')
    pr = get('prysm.propagation')
    h, w = int(rng.integers(1, 10)), int(rng.integers(1, 10))
    E = np.zeros((h, w, 2, 2), dtype=complex)
    kinds = []
    for a in range(2):
        for b in range(2):
            k = int(rng.integers(0, 3))
            kinds.append(k)
            if k == 1:
                E[..., a, b] = complex(rng.standard_normal(), rng.standard_normal())
            elif k == 2:
                E[..., a, b] = rng.standard_normal((h, w)) + 1j * rng.standard_normal((h, w))
    gain, off = complex(rng.standard_normal(), rng.standard_normal()), complex(rng.standard_normal(), rng.standard_normal())
    affine = pol.jones_adapter(lambda F, g, offset=0: F * g + offset)
    out = affine(E, gain, offset=off)
    ok = all(np.allclose(out[..., a, b], E[..., a, b] * gain + off) for a in range(2) for b in range(2))
    check('affine-routine-componentwise', bool(out.shape == E.shape and ok))
    foc = pol.jones_adapter(pr.focus)
    outf = foc(E, 1)
    ok = all(np.allclose(outf[..., a, b], pr.focus(E[..., a, b], 1)) for a in range(2) for b in range(2))
    check('focus-componentwise', bool(ok))
