"""C09 — derivative functions are the derivatives of the functions they name."""
from pvc.api import *
from contracts.polyspec import *


def _jacobi_ab(rng):
    """Jacobi weight parameters: random, or one of the classical special pairs (Legendre, the four Chebyshev kinds, Gegenbauer,
    pairs with alpha + beta = 0 or -1, where the general recurrence coefficients at n = 0 are 0/0 and the code has a special case)"""
    special = [(0.0, 0.0), (-0.5, -0.5), (0.5, 0.5), (-0.5, 0.5), (0.5, -0.5), (0.3, -0.3), (-0.25, -0.75), (1.0, 1.0), (2.0, -0.5),
               (0.1 + 0.2, -0.3), (-0.7 + 1e-17, -0.3), (0.1 + 0.2 - 1.0, -0.3)]      # alpha+beta a rounding error away from 0 / -1
    if rng.random() < 0.4:
        return special[int(rng.integers(0, len(special)))]
    return float(rng.uniform(-0.9, 3)), float(rng.uniform(-0.9, 3))

XK = ['scalar', '1d', '2d']


def _x(kind):
    if kind == 'scalar':
        return Array('x', ())
    if kind == '1d':
        return Array('x', (Int('N', 1),))
    return Array('x', (Int('H', 1), Int('W', 1)))


def _ix(x):
    return tuple(skolem(d, 'q%d' % k) for k, d in enumerate(x.shape))


# derivative spec functions: the DIFFERENTIATED three-term recurrences (product rule applied to the C07 definitions)
DHE = SpecFn('d_hermite_He', 1, [
    (lambda n: n == 0, lambda F, n, x: 0),
    (lambda n: n == 1, lambda F, n, x: 1),
    (lambda n: n >= 2, lambda F, n, x: HE.raw(n - 1, x) + x * F.raw(n - 1, x) - (n - 1) * F.raw(n - 2, x)),
])
DHH = SpecFn('d_hermite_H', 1, [
    (lambda n: n == 0, lambda F, n, x: 0),
    (lambda n: n == 1, lambda F, n, x: 2),
    (lambda n: n >= 2, lambda F, n, x: 2 * HH.raw(n - 1, x) + 2 * x * F.raw(n - 1, x) - 2 * (n - 1) * F.raw(n - 2, x)),
])


def _herm_lemma(name, F, DF, coef):
    def lem():
        x = Real('x')
        check('base-1', DF.at(1, x) == coef(1) * F.at(0, x))
        check('base-2', DF.at(2, x) == coef(2) * F.at(1, x))
        n = Int('n', 3)
        assume(DF.at(n - 1, x) == coef(n - 1) * F.at(n - 2, x))
        assume(DF.at(n - 2, x) == coef(n - 2) * F.at(n - 3, x))
        check('step', DF.at(n, x) == coef(n) * F.at(n - 1, x))
    lem.__doc__ = 'd/dx F_n = c(n) F_{n-1} for all n >= 1, by induction from the (differentiated) three-term recurrence alone'
    return lemma('C09', name)(lem)


_herm_lemma('lemma/He-derivative', HE, DHE, lambda n: n)
_herm_lemma('lemma/H-derivative', HH, DHH, lambda n: 2 * n)


@harness('C09', 'hermite_der/is-derivative', variants=[dict(f=f, x=xk) for f in ('He', 'H') for xk in XK],
         fuc=['prysm.polynomials.hermite.hermite_He_der', 'prysm.polynomials.hermite.hermite_H_der'])
def hermite_der(v):
    """hermite_*_der(n, x) = d/dx hermite_*(n, x) (differentiated recurrence) for every n >= 0 incl. n = 0, 1."""
    F, DF, coef, nm = (HE, DHE, (lambda n: n), 'hermite_He') if v['f'] == 'He' else (HH, DHH, (lambda n: 2 * n), 'hermite_H')
    n = Int('n', 0)
    x = _x(v['x'])
    ix = _ix(x)
    xe = elem(x, *ix)
    with stub('prysm.polynomials.hermite', nm, lambda n_, x_: spec_over(F, n_, (), x_)):
        out = call('prysm.polynomials.hermite.%s_der' % nm, n, x)
    if n >= 1:
        use_lemma('lemma/%s-derivative' % v['f'], DF.at(n, xe) == coef(n) * F.at(n - 1, xe))
    check('is-derivative', And(shape_is(out, *x.shape), approx(elem(out, *ix), DF.at(n, xe), 1e-7)))


@harness('C09', 'jacobi_der/closed-form', variants=XK, fuc=['prysm.polynomials.jacobi.jacobi_der'])
def jacobi_der_cf(kind):
    """jacobi_der(n, a, b, x) = (n+a+b+1)/2 * P_{n-1}^(a+1,b+1)(x) (DLMF 18.9.15, a cited cross-parameter identity validated in the
    bounded harness), 0 for n = 0  (callee jacobi = its contract)."""
    n = Int('n', 0)
    a, b = Real('alpha'), Real('beta')
    assume(And(a > -1, b > -1))
    x = _x(kind)
    ix = _ix(x)
    xe = elem(x, *ix)
    with stub('prysm.polynomials.jacobi', 'jacobi', lambda n_, a_, b_, x_: spec_over(JAC, n_, (a_, b_), x_)):
        out = call('prysm.polynomials.jacobi.jacobi_der', n, a, b, x)
    want = ite(n == 0, 0, (n + a + b + 1) / 2 * JAC.at(n - 1, a + 1, b + 1, xe)) if MODE == 'symbolic' else \
        (0 if n == 0 else (n + a + b + 1) / 2 * JAC.at(n - 1, a + 1, b + 1, xe))
    check('closed-form', And(shape_is(out, *x.shape), approx(elem(out, *ix), want, 1e-7)))


@harness('C09', 'laguerre_der/closed-form', variants=XK, fuc=['prysm.polynomials.laguerre.laguerre_der'])
def laguerre_der_cf(kind):
    """laguerre_der(n, alpha, x) = -L_{n-1}^(alpha+1)(x) (DLMF 18.9.23), 0 for n = 0."""
    n = Int('n', 0)
    a = Real('alpha')
    assume(a > -1)
    x = _x(kind)
    ix = _ix(x)
    xe = elem(x, *ix)
    with stub('prysm.polynomials.laguerre', 'laguerre', lambda n_, a_, x_: spec_over(LAG, n_, (a_,), x_)):
        out = call('prysm.polynomials.laguerre.laguerre_der', n, a, x)
    if n == 0:
        want = 0
    else:
        want = -LAG.at(n - 1, a + 1, xe)
    got = elem(out, *ix) if isarray(out) else out
    check('closed-form', approx(got, want, 1e-7))


@harness('C09', 'conic_sag_der/is-derivative', variants=['conic', 'sphere'],
         fuc=['prysm.x.raytracing.surfaces.conic_sag', 'prysm.x.raytracing.surfaces.conic_sag_der',
              'prysm.x.raytracing.surfaces.sphere_sag', 'prysm.x.raytracing.surfaces.sphere_sag_der'])
def conic_der(kind):
    """z(rho) lies on c rho^2 - 2z + (1+k) c z^2 = 0, so z' = c rho / (1 - (1+k) c z): the _der routine returns exactly that."""
    c, rho = Real('c'), Real('rho', 0)
    k = Real('kappa') if kind == 'conic' else 0
    assume(1 - (1 + k) * c * c * rho * rho > 0)
    S = 'prysm.x.raytracing.surfaces.'
    if kind == 'conic':
        z = call(S + 'conic_sag', c, k, rho * rho)
        dz = call(S + 'conic_sag_der', c, k, rho)
    else:
        z = call(S + 'sphere_sag', c, rho * rho)
        dz = call(S + 'sphere_sag_der', c, rho)
    check('on-conic', approx(c * rho * rho - 2 * z + (1 + k) * c * z * z, 0, 1e-9))
    check('is-derivative', approx(dz * (1 - (1 + k) * c * z), c * rho, 1e-9))


@harness('C09', 'der_direction_cosine_spheroid/is-derivative', variants=['given-phi', 'own-phi'],
         fuc=['prysm.x.raytracing.surfaces.der_direction_cosine_spheroid', 'prysm.x.raytracing.surfaces.phi_spheroid'])
def dircos_der(kind):
    """phi(rho)^2 = 1 - (1+k) c^2 rho^2 (phi_spheroid, phi > 0), so phi phi' = -(1+k) c^2 rho and (1/phi)' = -phi'/phi^2 =
    (1+k) c^2 rho / phi^3: the routine documented as d/drho of 1/phi returns exactly that, for every conic constant."""
    c, rho, k = Real('c'), Real('rho', 0), Real('kappa')
    assume(1 - (1 + k) * c * c * rho * rho > 0)
    S = 'prysm.x.raytracing.surfaces.'
    phi = call(S + 'phi_spheroid', c, k, rho * rho)
    check('phi-squared', And(phi > 0, approx(phi * phi, 1 - (1 + k) * c * c * rho * rho, 1e-12)))
    d = call(S + 'der_direction_cosine_spheroid', c, k, rho, phi=phi) if kind == 'given-phi' else call(S + 'der_direction_cosine_spheroid', c, k, rho)
    check('is-derivative-of-one-over-phi', approx(d * phi * phi * phi, (1 + k) * c * c * rho, 1e-9))


# ------------------------------------------------------------------------------------ bounded: everything else
DER_CASES = ['jacobi_der', 'laguerre_der', 'cheby_der', 'legendre_der', 'zernike_nm_der', 'der_seq-families',
             'jacobi_sum_clenshaw_der', 'clenshaw_qbfs_der', 'compute_z_zprime_Qbfs', 'compute_z_zprime_Qcon',
             'compute_z_zprime_Q2d', 'off_axis_conic_der', 'off_axis_conic_sigma_der', 'Q2d_and_der', 'der_direction_cosine_spheroid']


def _fd(f, x, h=1e-5):
    """6th-order central difference"""
    return (-f(x - 3 * h) + 9 * f(x - 2 * h) - 45 * f(x - h) + 45 * f(x + h) - 9 * f(x + 2 * h) + f(x + 3 * h)) / (60 * h)


@harness('C09', 'bounded/numerical-derivative', kind='bounded', variants=DER_CASES,
         fuc=['prysm.polynomials.jacobi.jacobi_sum_clenshaw_der', 'prysm.polynomials.qpoly.clenshaw_qbfs_der',
              'prysm.polynomials.qpoly.compute_z_zprime_Qbfs', 'prysm.polynomials.qpoly.compute_z_zprime_Qcon',
              'prysm.polynomials.qpoly.compute_z_zprime_Q2d', 'prysm.polynomials.zernike.zernike_nm_der',
              'prysm.x.raytracing.surfaces.off_axis_conic_der', 'prysm.x.raytracing.surfaces.off_axis_conic_sigma_der',
              'prysm.x.raytracing.surfaces.Q2d_and_der'])
def bounded_der(which):
    """BOUNDED (not a proof): each *_der / slope routine against a 6th-order central difference of its value routine on
    seeded orders (incl. n = 0, 1), parameters, coefficient vectors (dense, sparse, length 1..8) and interior points, plus the centre r = 0 for the Zernike derivatives."""
    import numpy as np
    rng = np.random.default_rng(Int('seed', 0, 10 ** 6))
    P = 'prysm.polynomials.'
    x = vary_layout(rng, rng.uniform(-0.8, 0.8, 7))      # contiguous or strided
    tol = dict(rtol=2e-6, atol=2e-6)
    ok = True
    if which == 'jacobi_der':
        a, b = _jacobi_ab(rng)
        for n in range(0, 9):
            f = lambda xx: get(P + 'jacobi.jacobi')(n, a, b, xx)
            ok &= bool(np.allclose(get(P + 'jacobi.jacobi_der')(n, a, b, x), _fd(f, x), **tol))
    elif which == 'laguerre_der':
        a = float(rng.uniform(-0.9, 3))
        for n in range(0, 9):
            f = lambda xx: get(P + 'laguerre.laguerre')(n, a, xx + 1)
            ok &= bool(np.allclose(get(P + 'laguerre.laguerre_der')(n, a, x + 1), _fd(f, x), **tol))
    elif which == 'cheby_der':
        for k in (1, 2, 3, 4):
            for n in range(0, 8):
                f = lambda xx: get(P + 'cheby.cheby%d' % k)(n, xx)
                ok &= bool(np.allclose(get(P + 'cheby.cheby%d_der' % k)(n, x), _fd(f, x), **tol))
    elif which == 'legendre_der':
        for n in range(0, 9):
            f = lambda xx: get(P + 'legendre.legendre')(n, xx)
            ok &= bool(np.allclose(get(P + 'legendre.legendre_der')(n, x), _fd(f, x), **tol))
    elif which == 'zernike_nm_der':
        r = rng.uniform(0.1, 0.9, 6)
        r[0] = 0.0            # the centre sample of every grid: the radial polynomial is a polynomial, its slope exists there
        t = rng.uniform(-3, 3, 6)
        for n in range(0, 7):
            for m in range(-n, n + 1, 2):
                for norm in (True, False):
                    Z = lambda rr, tt: get(P + 'zernike.zernike_nm')(n, m, rr, tt, norm=norm)
                    dr, dt = get(P + 'zernike.zernike_nm_der')(n, m, r.copy(), t.copy(), norm=norm)
                    ok &= bool(np.allclose(dr, _fd(lambda rr: Z(rr, t), r), **tol)) and bool(np.allclose(dt, _fd(lambda tt: Z(r, tt), t), **tol))
    elif which == 'der_seq-families':
        ns = sorted(set(int(v) for v in rng.integers(0, 10, 5)))
        a, b = _jacobi_ab(rng)
        pairs = [('jacobi.jacobi_der_seq', lambda: get(P + 'jacobi.jacobi_der_seq')(ns, a, b, x), lambda n: get(P + 'jacobi.jacobi_der')(n, a, b, x)),
                 ('hermite.hermite_He_der_seq', lambda: get(P + 'hermite.hermite_He_der_seq')(ns, x), lambda n: get(P + 'hermite.hermite_He_der')(n, x)),
                 ('hermite.hermite_H_der_seq', lambda: get(P + 'hermite.hermite_H_der_seq')(ns, x), lambda n: get(P + 'hermite.hermite_H_der')(n, x)),
                 ('laguerre.laguerre_der_seq', lambda: get(P + 'laguerre.laguerre_der_seq')(ns, a, x + 1), lambda n: get(P + 'laguerre.laguerre_der')(n, a, x + 1)),
                 ('legendre.legendre_der_seq', lambda: get(P + 'legendre.legendre_der_seq')(ns, x), lambda n: get(P + 'legendre.legendre_der')(n, x))]
        for k in (1, 2, 3, 4):
            pairs.append(('cheby%d' % k, (lambda k=k: get(P + 'cheby.cheby%d_der_seq' % k)(ns, x)), (lambda n, k=k: get(P + 'cheby.cheby%d_der' % k)(n, x))))
        for nm, seqf, onef in pairs:
            seq = seqf()
            good = all(np.allclose(np.asarray(seq[i]), np.asarray(onef(n)), **tol) for i, n in enumerate(ns))
            check('der_seq-' + nm, bool(good))
    elif which == 'jacobi_sum_clenshaw_der':
        a, b = _jacobi_ab(rng)
        L = int(rng.integers(1, 8))
        s = rng.standard_normal(L)
        if rng.random() < 0.4:
            s[rng.integers(0, L, max(1, L // 2))] = 0
        jmax = int(rng.integers(1, 4))
        val = lambda xx: sum(s[k] * get(P + 'jacobi.jacobi')(k, a, b, xx) for k in range(L))
        al = get(P + 'jacobi.jacobi_sum_clenshaw_der')(s, a, b, x, j=jmax)
        ok &= bool(np.allclose(al[0][0], val(x), **tol))
        d = val
        for jj in range(1, jmax + 1):
            prev = d
            d = (lambda xx, prev=prev: _fd(prev, xx, 1e-3 if jj > 1 else 1e-5))
            ok &= bool(np.allclose(al[jj][0], d(x), rtol=1e-3 if jj > 1 else 2e-6, atol=1e-3 if jj > 1 else 2e-6))
    elif which in ('clenshaw_qbfs_der', 'compute_z_zprime_Qbfs', 'compute_z_zprime_Qcon'):
        L = int(rng.integers(1, 8))
        cs = rng.standard_normal(L)
        u = rng.uniform(0.1, 0.9, 6)
        if which == 'compute_z_zprime_Qcon':
            val = lambda uu: sum(cs[k] * get(P + 'qpoly.Qcon')(k, uu) for k in range(L))
            z, zp = get(P + 'qpoly.compute_z_zprime_Qcon')(cs, u, u * u)
        else:
            val = lambda uu: sum(cs[k] * get(P + 'qpoly.Qbfs')(k, uu) for k in range(L))
            z, zp = get(P + 'qpoly.compute_z_zprime_Qbfs')(cs, u, u * u)
        ok &= bool(np.allclose(z, val(u), **tol)) and bool(np.allclose(zp, _fd(val, u), **tol))
    elif which == 'compute_z_zprime_Q2d':
        u = rng.uniform(0.1, 0.9, 6)
        t = rng.uniform(-3, 3, 6)
        cm0 = list(rng.standard_normal(int(rng.integers(1, 8))))
        M = int(rng.integers(0, 4))
        ams = [list(rng.standard_normal(int(rng.integers(1, 8)))) for _ in range(M)]         # unequal lengths 1..7 per family
        bms = [list(rng.standard_normal(int(rng.integers(1, 8)))) for _ in range(M)]
        f = get(P + 'qpoly.compute_z_zprime_Q2d')
        z, zr, zt = f(cm0, ams, bms, u, t)
        ok &= bool(np.allclose(zr, _fd(lambda uu: f(cm0, ams, bms, uu, t)[0], u), **tol))
        ok &= bool(np.allclose(zt, _fd(lambda tt: f(cm0, ams, bms, u, tt)[0], t), **tol))
    elif which == 'der_direction_cosine_spheroid':
        S = 'prysm.x.raytracing.surfaces.'
        c, k = float(rng.uniform(-0.02, 0.02)), float(rng.choice([0.0, -1.0, float(rng.uniform(-2, 1))]))
        r = rng.uniform(0.5, 20, 6)
        val = lambda rr: 1 / get(S + 'phi_spheroid')(c, k, rr * rr)
        ok &= bool(np.allclose(get(S + 'der_direction_cosine_spheroid')(c, k, r), _fd(val, r, 1e-4), rtol=1e-6, atol=1e-10))          # atol: rounding noise of a difference quotient of O(1) values
    else:
        S = 'prysm.x.raytracing.surfaces.'
        c, k = float(rng.uniform(-0.01, 0.01)), float(rng.uniform(-1.5, 0.5))
        r = rng.uniform(1, 20, 6)
        t = rng.uniform(-3, 3, 6)
        s = float(rng.uniform(5, 40))
        kw = dict(dx=s) if rng.random() < 0.5 else dict(dx=0, dy=s)
        if which == 'off_axis_conic_der':
            val = lambda rr, tt: get(S + 'off_axis_conic_sag')(c, k, rr, tt, **kw)
            dr, dt = get(S + 'off_axis_conic_der')(c, k, r, t, **kw)
        else:
            # documented as, and used by Q2d_and_der as, the derivatives of 1 / off_axis_conic_sigma
            val = lambda rr, tt: 1 / get(S + 'off_axis_conic_sigma')(c, k, rr, tt, **kw)
            dr, dt = get(S + 'off_axis_conic_sigma_der')(c, k, r, t, **kw)
        ok &= bool(np.allclose(dr, _fd(lambda rr: val(rr, t), r, 1e-4), rtol=1e-5, atol=1e-9))
        ok &= bool(np.allclose(dt, _fd(lambda tt: val(r, tt), t, 1e-4), rtol=1e-5, atol=1e-9))
    if which == 'Q2d_and_der':
        # the sag-and-slope evaluator of a 2D-Q freeform on a (possibly shifted) conic base, as the ray tracer uses it
        S = 'prysm.x.raytracing.surfaces.'
        f = get(S + 'Q2d_and_der')
        cm0 = list(rng.standard_normal(int(rng.integers(1, 4))) * 1e-2)
        M = int(rng.integers(0, 3))
        ams = [list(rng.standard_normal(int(rng.integers(1, 4))) * 1e-2) for _ in range(M)]
        bms = [list(rng.standard_normal(int(rng.integers(1, 4))) * 1e-2) for _ in range(M)]
        R = float(rng.choice([1.0, 2.0, 7.5, float(rng.uniform(0.5, 12))]))
        c = float(rng.choice([0.0, float(rng.uniform(-0.04, 0.04))]))
        k = float(rng.choice([0.0, -1.0, float(rng.uniform(-2, 1))]))
        kw = {} if rng.random() < 0.4 else (dict(dx=float(rng.uniform(-10, 10))) if rng.random() < 0.5 else dict(dy=float(rng.uniform(-10, 10))))
        rr_ = rng.uniform(0.1, 0.9, (2, 3)) * R        # 2-D point sets: 1-D x, y would be read as the axes of a grid (cart_to_polar)
        tt_ = rng.uniform(-3, 3, (2, 3))
        val = lambda r_, t_: f(cm0, ams, bms, r_ * np.cos(t_), r_ * np.sin(t_), R, c, k, **kw)[0]
        z, dr, dt = f(cm0, ams, bms, rr_ * np.cos(tt_), rr_ * np.sin(tt_), R, c, k, **kw)
        ok = bool(np.allclose(dr, _fd(lambda r_: val(r_, tt_), rr_, 1e-4 * R), rtol=1e-5, atol=1e-8)) and \
            bool(np.allclose(dt, _fd(lambda t_: val(rr_, t_), tt_, 1e-4), rtol=1e-5, atol=1e-8))
    check('matches-central-difference', bool(ok))
