"""shared helper: replace the library transforms by arbitrary arrays for the duration of one real call (symbolic mode only), recording
what they were handed -- contracts that are MODULAR on fft2 / ifft2 (the transforms themselves are external library theorems)."""
from pvc.api import *


class havoc_fft:
    """with havoc_fft((m, n)) as hv: ... ; hv.F / hv.H are what fft2 / ifft2 return, hv.fwd_arg / hv.inv_arg what they were given"""
    def __init__(self, shape):
        self.shape = shape
        self.fwd_arg = self.inv_arg = None

    def __enter__(self):
        from pvc import symnp
        self.symnp = symnp
        self.F = Array('F', self.shape, 'c')
        self.H = Array('H', self.shape, 'c')
        self.old = {k: symnp.fft.__dict__.get(k) for k in ('fft2', 'ifft2')}

        def f_fwd(a, *args, **kw):
            self.fwd_arg = a
            return self.F

        def f_inv(a, *args, **kw):
            self.inv_arg = a
            return self.H
        symnp.fft.fft2, symnp.fft.ifft2 = f_fwd, f_inv
        return self

    def __exit__(self, *a):
        for k, v in self.old.items():
            if v is None:
                delattr(self.symnp.fft, k)
            else:
                setattr(self.symnp.fft, k, v)
        return False
