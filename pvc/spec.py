"""Spec functions (DESIGN 1.2): uninterpreted functions with a textbook recursive definition.
Every application created through .at() instantiates the definition ONE level deep at that argument
(ground instantiation at use sites: the solver never sees a quantifier)."""
import z3

from . import symcore as sc
from .symcore import ctx, SInt, SReal, lift, Sc


def concretize(nz):
    """if the path condition forces the integer term nz to one value, return that literal"""
    nz = z3.simplify(nz)
    if z3.is_int_value(nz):
        return nz
    k = ('conc', nz.get_id())
    hit = ctx._vc_seen.get(k)
    if hit is not None:
        return hit[1]
    res = nz
    if ctx.solver.check() == z3.sat:
        v = ctx.solver.model().eval(nz, model_completion=True)
        if z3.is_int_value(v) and not ctx.feasible(nz != v):
            res = v
    ctx._vc_seen[k] = (nz, res)
    return res


class SpecFn:
    """F(n, *params) real-valued, n integer.  define(F, n, *params) -> value of F(n, ...) in terms of
    F.raw(n-1, ...), F.raw(n-2, ...) (python conditionals on n are NOT allowed: use cases=...).
    cases: list of (guard(n) -> SBool, value(F, n, *params))  evaluated in order (first true guard wins)."""
    def __init__(self, name, nparams, cases):
        self.name, self.nparams, self.cases = name, nparams, cases
        self.f = z3.Function('spec_' + name, z3.IntSort(), *([z3.RealSort()] * nparams), z3.RealSort())
        sc.ATOM_NAMES.add('spec_' + name)

    def raw(self, n, *params):
        """application without unfolding"""
        n = lift(n)
        nz = concretize(n.z)
        if z3.is_int_value(nz) and 0 <= nz.as_long() <= 8:
            return self.at(SInt(nz), *params)          # concrete small index: unfold down to the base cases
        ps = [sc._toreal(lift(p).z) for p in params]
        return SReal(self.f(nz, *ps))

    def at(self, n, *params, depth=2):
        n = lift(n)
        ps = [z3.simplify(sc._toreal(lift(p).z)) for p in params]
        nz0 = z3.simplify(n.z)
        nz = concretize(nz0)
        app = self.f(nz, *ps)
        if not nz.eq(nz0):
            ctx.add(self.f(nz0, *ps) == app)
        key = ('spec', self.name, nz.get_id()) + tuple(p.get_id() for p in ps)
        if key not in ctx._vc_seen:
            ctx._vc_seen[key] = (app, nz, ps)
            pr = [SReal(p) for p in ps]
            nn = SInt(nz)
            # first-true-guard semantics as a chain of implications
            prior = []
            for guard, value in self.cases:
                g = sc.tobool(guard(nn))
                cond = z3.And(*([z3.Not(p) for p in prior] + [g])) if prior else g
                cs = z3.simplify(cond)
                if not z3.is_false(cs):
                    save = ctx.div_safety
                    ctx.div_safety = False          # the definition's own divisions are not code obligations
                    try:
                        v = value(self, nn, *pr)
                    finally:
                        ctx.div_safety = save
                    ctx.add(z3.Implies(cond, app == sc._toreal(lift(v).z)))
                prior.append(g)
            ctx.axiom_log.add('spec:%s (textbook recurrence, instantiated at use sites)' % self.name)
            if depth > 1 and not z3.is_int_value(nz):
                # also unfold the two predecessors (their guards decide applicability): the code special-cases the
                # orders 0, 1, 2, so two levels reach the base cases from any symbolic order
                for k in (1, 2):
                    self.at(SInt(nz - k), *pr, depth=depth - 1)
        return SReal(app)


class SpecArr:
    """helper: elementwise lifting of a spec function over a coordinate array"""
    pass
