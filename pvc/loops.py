"""Loop contracts: cut `for ... in range(...)` / `while` loops of the REAL function by an inductive invariant.

The function's source is re-read from /repo on every run, the chosen loops are rewritten mechanically
(nothing else is touched) into the standard   establish / arbitrary-iteration-preserves / exit-under-invariant
form, the result is compiled in the function's own module namespace and installed in place of the original
for the duration of the harness.  What the rewriting drops: nothing; what it adds: calls to the runtime below.
"""
import ast
import importlib
import inspect
import textwrap

import z3

from . import symcore as sc
from .symcore import ctx, SInt, SBool, lift, check, StopPath, Unsupported, fresh_int, smax


class Invariant:
    """subclass and define
         state(self, env, i) -> dict var -> value   : THE state at loop index i (constructive havoc; may use fresh
                                                      symbols and assume() for the unconstrained part)
         holds(self, env, i) -> iterable (label, cond): the invariant as a checkable predicate over actual values
       optional: cond_extra(env) for while loops; decreases(env) -> int term (while loops)
    """
    def state(self, env, i):
        raise NotImplementedError

    def holds(self, env, i):
        raise NotImplementedError

    decreases = None


class _Runtime:
    def __init__(self, fname, invs):
        self.fname = fname
        self.invs = invs
        self.frames = {}

    def begin_for(self, k, lo, hi, env):
        inv = self.invs[k]
        lo, hi = lift(lo), lift(hi)
        for label, c in inv.holds(env, lo):
            check('loop%d/establish/%s' % (k, label), c)
        return lo, hi

    def begin_while(self, k, env):
        inv = self.invs[k]
        for label, c in inv.holds(env, None):
            check('loop%d/establish/%s' % (k, label), c)

    def choice(self, k):
        b = z3.Bool(ctx.fresh_name('loopchoice%d' % k))
        return ctx.branch(b)

    def havoc_for(self, k, phase, lo, hi, names, env):
        inv = self.invs[k]
        if phase == 'iter':
            i = fresh_int('it%d' % k)
            ctx.add(i.z >= lo.z)
            ctx.add(i.z < hi.z)
            ctx.add_hint(i)
        else:
            i = smax(lo, hi)
        st = inv.state(env, i)
        self.frames[k] = i
        missing = [n for n in names if n not in st]
        if missing:
            raise Unsupported('invariant of loop %d of %s does not describe modified variable(s) %s' % (k, self.fname, missing))
        return (i,) + tuple(st[n] for n in names)

    # descending loops `for n in range(a, b, -1)`: the invariant is indexed by the NEXT value of the loop variable
    # (a at entry; n at the head of the iteration that processes n; n - 1 after it; min(a, b) at exit)
    def begin_for_desc(self, k, a, b, env):
        inv = self.invs[k]
        a, b = lift(a), lift(b)
        for label, c in inv.holds(env, a):
            check('loop%d/establish/%s' % (k, label), c)
        return a, b

    def havoc_for_desc(self, k, phase, a, b, names, env):
        inv = self.invs[k]
        if phase == 'iter':
            i = fresh_int('it%d' % k)
            ctx.add(i.z <= a.z)
            ctx.add(i.z > b.z)
            ctx.add_hint(i)
        else:
            i = sc.ite(a < b, a, b)
        st = inv.state(env, i)
        self.frames[k] = i
        missing = [n for n in names if n not in st]
        if missing:
            raise Unsupported('invariant of loop %d of %s does not describe modified variable(s) %s' % (k, self.fname, missing))
        return (i,) + tuple(st[n] for n in names)

    def preserve_for_desc(self, k, env):
        inv = self.invs[k]
        i = self.frames[k]
        for label, c in inv.holds(env, i - 1):
            check('loop%d/preserve/%s' % (k, label), c)
        raise StopPath()

    def havoc_while(self, k, phase, names, env):
        inv = self.invs[k]
        st = inv.state(env, None)
        missing = [n for n in names if n not in st]
        if missing:
            raise Unsupported('invariant of loop %d of %s does not describe modified variable(s) %s' % (k, self.fname, missing))
        return tuple(st[n] for n in names)

    def assume_cond(self, c, positive):
        b = sc.tobool(c) if not isinstance(c, bool) else z3.BoolVal(c)
        ctx.add(b if positive else z3.Not(b))
        if not ctx.feasible():
            raise sc.PathAbort('loop condition infeasible')

    def measure(self, k, env):
        inv = self.invs[k]
        if inv.decreases is None:
            return None
        return lift(inv.decreases(env))

    def preserve_for(self, k, env):
        inv = self.invs[k]
        i = self.frames[k]
        for label, c in inv.holds(env, i + 1):
            check('loop%d/preserve/%s' % (k, label), c)
        raise StopPath()

    def preserve_while(self, k, env, m0):
        inv = self.invs[k]
        for label, c in inv.holds(env, None):
            check('loop%d/preserve/%s' % (k, label), c)
        if m0 is not None:
            m1 = lift(inv.decreases(env))
            check('loop%d/decreases' % k, sc.And(m0 >= 0, m1 < m0))
        raise StopPath()


def _assigned_names(nodes):
    out = []

    def add(n):
        if n not in out:
            out.append(n)

    class V(ast.NodeVisitor):
        def visit_Assign(self, node):
            for t in node.targets:
                self._target(t)
            self.generic_visit(node)

        def visit_AugAssign(self, node):
            self._target(node.target)
            self.generic_visit(node)

        def visit_AnnAssign(self, node):
            self._target(node.target)
            self.generic_visit(node)

        def visit_For(self, node):
            self._target(node.target)
            self.generic_visit(node)

        def visit_Expr(self, node):
            # method calls that mutate a local: x.append(..), x.extend(..)
            v = node.value
            if isinstance(v, ast.Call) and isinstance(v.func, ast.Attribute) and isinstance(v.func.value, ast.Name) \
                    and v.func.attr in ('append', 'extend', 'insert', 'pop', 'fill', 'sort'):
                add(v.func.value.id)
            self.generic_visit(node)

        def _target(self, t):
            if isinstance(t, ast.Name):
                add(t.id)
            elif isinstance(t, (ast.Tuple, ast.List)):
                for e in t.elts:
                    self._target(e)
            elif isinstance(t, (ast.Subscript, ast.Attribute)):
                b = t
                while isinstance(b, (ast.Subscript, ast.Attribute)):
                    b = b.value
                if isinstance(b, ast.Name):
                    add(b.id)
    for n in nodes:
        V().visit(n)
    return out


class _Rewriter(ast.NodeTransformer):
    def __init__(self, which, fname='f'):
        self.which = which       # set of loop ordinals to cut
        self.rt = '__pvc_rt_' + fname
        self.counter = -1
        self.done = set()

    def _has_escape(self, body):
        for n in body:
            for s in ast.walk(n):
                if isinstance(s, (ast.Break, ast.Continue, ast.Return, ast.Yield)):
                    return True
        return False

    def visit_For(self, node):
        self.counter += 1
        k = self.counter
        node = self.generic_visit(node)
        if k not in self.which:
            return node
        if self._has_escape(node.body) or node.orelse:
            raise Unsupported('loop %d has break/continue/return/else' % k)
        it = node.iter
        desc = False
        if isinstance(it, ast.Call) and isinstance(it.func, ast.Name) and it.func.id == 'range' and len(it.args) == 3:
            st = it.args[2]
            if isinstance(st, ast.UnaryOp) and isinstance(st.op, ast.USub) and isinstance(st.operand, ast.Constant) and st.operand.value == 1:
                desc = True
            else:
                raise Unsupported('loop %d: range step other than -1' % k)
        elif not (isinstance(it, ast.Call) and isinstance(it.func, ast.Name) and it.func.id == 'range' and 1 <= len(it.args) <= 2):
            raise Unsupported('loop %d is not `for .. in range(a[, b])` / `range(a, b, -1)`' % k)
        lo = ast.Constant(0) if len(it.args) == 1 else it.args[0]
        hi = it.args[1] if desc else it.args[-1]
        names = [n for n in _assigned_names(node.body)]
        tgt = node.target
        if not isinstance(tgt, ast.Name):
            raise Unsupported('loop %d target is not a simple name' % k)
        names = [n for n in names if n != tgt.id]
        self.done.add(k)
        src = '''
__lo{k}, __hi{k} = __pvc_rt.begin_for({k}, __LO__, __HI__, locals())
if __pvc_rt.choice({k}):
    ({tgt}, {names}) = __pvc_rt.havoc_for({k}, 'iter', __lo{k}, __hi{k}, {names_repr}, locals())
    __BODY__
    __pvc_rt.preserve_for({k}, locals())
else:
    (__i{k}, {names}) = __pvc_rt.havoc_for({k}, 'exit', __lo{k}, __hi{k}, {names_repr}, locals())
'''.format(k=k, tgt=tgt.id, names=''.join(n + ', ' for n in names), names_repr=repr(tuple(names))).replace('__pvc_rt', self.rt)
        if desc:
            src = src.replace('.begin_for(', '.begin_for_desc(').replace('.havoc_for(', '.havoc_for_desc(').replace('.preserve_for(', '.preserve_for_desc(')
        new = ast.parse(textwrap.dedent(src)).body
        return self._splice(new, {'__LO__': lo, '__HI__': hi}, node.body, node)

    def visit_While(self, node):
        self.counter += 1
        k = self.counter
        node = self.generic_visit(node)
        if k not in self.which:
            return node
        if self._has_escape(node.body) or node.orelse:
            raise Unsupported('loop %d has break/continue/return/else' % k)
        names = _assigned_names(node.body)
        self.done.add(k)
        src = '''
__pvc_rt.begin_while({k}, locals())
if __pvc_rt.choice({k}):
    ({names}) = __pvc_rt.havoc_while({k}, 'iter', {names_repr}, locals())
    __pvc_rt.assume_cond(__COND__, True)
    __m{k} = __pvc_rt.measure({k}, locals())
    __BODY__
    __pvc_rt.preserve_while({k}, locals(), __m{k})
else:
    ({names}) = __pvc_rt.havoc_while({k}, 'exit', {names_repr}, locals())
    __pvc_rt.assume_cond(__COND__, False)
'''.format(k=k, names=''.join(n + ', ' for n in names), names_repr=repr(tuple(names))).replace('__pvc_rt', self.rt)
        new = ast.parse(textwrap.dedent(src)).body
        return self._splice(new, {'__COND__': node.test}, node.body, node)

    def _splice(self, stmts, exprs, body, orig):
        import copy

        class Sub(ast.NodeTransformer):
            def visit_Name(self_, n):
                if n.id in exprs:
                    return copy.deepcopy(exprs[n.id])
                return n

            def visit_Expr(self_, n):
                if isinstance(n.value, ast.Name) and n.value.id == '__BODY__':
                    return [copy.deepcopy(b) for b in body]
                return self_.generic_visit(n)
        out = []
        for s in stmts:
            r = Sub().visit(s)
            if isinstance(r, list):
                out.extend(r)
            else:
                out.append(r)
        for s in out:
            ast.copy_location(s, orig)
            ast.fix_missing_locations(s)
        return out


def _resolve(path):
    parts = path.split('.')
    for k in range(len(parts), 0, -1):
        try:
            mod = importlib.import_module('.'.join(parts[:k]))
        except ImportError:
            continue
        owner = mod
        for p in parts[k:-1]:
            owner = getattr(owner, p)
        return mod, owner, parts[-1]
    raise ImportError(path)


class cut_loops:
    """with cut_loops('prysm.polynomials.zernike.noll_to_nm', {0: Inv()}): ..."""
    def __init__(self, path, invs):
        self.path, self.invs = path, invs

    def __enter__(self):
        from . import symbolic
        symbolic.install()
        mod, owner, name = _resolve(self.path)
        fn = getattr(owner, name)
        raw = fn
        while hasattr(raw, '__wrapped__'):
            raw = raw.__wrapped__
        src = textwrap.dedent(inspect.getsource(raw))
        tree = ast.parse(src)
        fdef = tree.body[0]
        fdef.decorator_list = []
        rw = _Rewriter(set(self.invs), name)
        rw.visit(fdef)
        missing = set(self.invs) - rw.done
        if missing:
            raise Unsupported('loop ordinal(s) %s not found in %s (loop structure changed)' % (sorted(missing), self.path))
        ast.fix_missing_locations(tree)
        code = compile(tree, inspect.getsourcefile(raw) or '<pvc>', 'exec')
        ns = {}
        glb = raw.__globals__
        rt = _Runtime(self.path, self.invs)
        glb['__pvc_rt_' + name] = rt
        # the rewritten function looks up __pvc_rt in its globals: use a per-function alias
        exec(code, glb, ns)
        new = ns[name]
        self.owner, self.name, self.old, self.glb = owner, name, fn, glb
        setattr(owner, name, new)
        ctx.axiom_log.add('loop-contract:%s loops %s cut by invariant (induction over iterations)' % (self.path, sorted(self.invs)))
        return new

    def __exit__(self, *a):
        setattr(self.owner, self.name, self.old)
        return False


# ----------------------------------------------------------------------------- symbolic list
class SList:
    """python list of symbolic length: (length, element function).  Supports append, len, indexing with
    python negative-index semantics."""
    def __init__(self, length, fn):
        self.length = lift(length)
        self.fn = fn

    def __len__(self):
        z = z3.simplify(self.length.z)
        if z3.is_int_value(z):
            return z.as_long()
        raise Unsupported('len() of symbolic list (module must use patched len)')

    def slen(self):
        return self.length

    def append(self, v):
        n = self.length
        old = self.fn
        self.fn = lambda p, old=old, n=n, v=v: sc.ite(lift(p) == n, v, old(p))
        self.length = n + 1

    def __getitem__(self, p):
        if isinstance(p, slice):
            raise Unsupported('slice of symbolic list')
        p = lift(p)
        n = self.length
        if bool(sc.Or(p < -n, p >= n)):
            raise IndexError('list index out of range')
        if ctx.feasible((p < 0).z):
            p = sc.ite(p < 0, p + n, p)
        return self.fn(p)


def seq_len(s):
    if isinstance(s, SList):
        return s.length
    return len(s)


def seq_get(s, p):
    """element p (0 <= p < len) of a python list or SList; symbolic p on a python list -> ite chain"""
    if isinstance(s, SList):
        return s.fn(lift(p))
    if isinstance(p, int):
        return s[p]
    r = s[-1]
    for k in range(len(s) - 2, -1, -1):
        r = sc.ite(lift(p) == k, s[k], r)
    return r


class PredInvariant(Invariant):
    """invariant given as a predicate over the loop's modified variables: havoc = fresh symbols + assume(pred).
    subclass: vars = {'name': 'int'|'real'};  pred(self, v, env, i) -> list of (label, cond) with v a dict of values."""
    vars = {}

    def pred(self, v, env, i):
        raise NotImplementedError

    def state(self, env, i):
        v = {}
        for name, kind in self.vars.items():
            v[name] = fresh_int(name) if kind == 'int' else sc.fresh_real(name)
        for _, c in self.pred(v, env, i):
            sc.assume(c)
        return v

    def holds(self, env, i):
        v = {name: env[name] for name in self.vars}
        return list(self.pred(v, env, i))
