"""pvc runner: explore every path of every harness of a property, discharge the VCs, replay
counter-models on the real code, apply known findings, write evidence, print verdict lines.

exit 0: every obligation discharged (or listed as an open known finding)
exit 1: VIOLATION line(s) printed
exit 2: undecided obligations and the bounded fallback could not run
exit 3: checker crash
"""
import importlib
import json
import multiprocessing as mp
import os
import re
import subprocess
import sys
import time
import traceback

VERIF = os.path.dirname(os.path.dirname(os.path.abspath(__file__)))
REPO = os.environ.get('PVC_REPO', '/repo')
VENV_PY = os.environ.get('PVC_VENV_PY', '/venv/bin/python')

GLOBAL_ASSUMPTIONS = [
    'A1 floats are exact reals (no rounding/overflow/NaN unless modelled explicitly)',
    'A2 Python ints are mathematical integers; numpy integer casts modelled as trunc+mod 2^N',
    'A3 dtype carried as a tag (kind,bits) with NEP-50 promotion; values stay real',
    'A4 numpy/scipy/math functions are assumed contracts (pvc/symnp.py), not verified',
    'A5 aliasing: basic slices are views of their base; distinct parameters do not alias',
    'A6 partial correctness; loops with symbolic trip count are cut by invariants',
    'A7 exp(i t)=E[t] with group laws; cos/sin/sqrt/exp atoms with only the stated axioms',
    'real code executed by CPython with prysm.mathops backend shim pointed at the symbolic model; '
    'module-level names math/truenp/isinstance/len/int/float/max/min/round/range/divmod/sum/abs shadowed',
]


def load_contracts(prop):
    sys.path.insert(0, VERIF)
    from pvc import registry
    mod = importlib.import_module('contracts.%s' % prop.lower())
    hs = [h for h in registry.HARNESSES.values() if h.prop == prop]
    return mod, hs


# ------------------------------------------------------------------ worker side
def explore(h, variant, tier, max_paths):
    from pvc import symcore as sc
    from pvc import symbolic
    import z3
    ctx = sc.ctx
    ctx.reset_all()
    ctx.vc_timeout_ms = 10000 if tier == 'quick' else 60000
    if h.kind != 'lemma':
        symbolic.install()
    ctx.pending = [[]]
    obl = {}
    errors = []
    npaths = 0
    t0 = time.time()
    while ctx.pending:
        dec = ctx.pending.pop()
        ctx.begin_path(dec)
        ctx.fresh = 0
        ctx.inputs = {}
        ctx.results = []
        status = 'ok'
        try:
            if variant is None:
                h.fn()
            else:
                h.fn(variant)
        except (sc.PathAbort, sc.StopPath):
            pass
        except sc.Unsupported as e:
            errors.append('unsupported: %s' % e)
            ctx.results.append(('supported-subset', 'unknown', {'reason': 'unsupported: %s' % e, 't': 0, 'safety': False}))
        except RecursionError as e:
            errors.append('recursion')
            ctx.results.append(('supported-subset', 'unknown', {'reason': 'recursion limit', 't': 0, 'safety': False}))
        except Exception as e:
            # exception escaping the real code on this path: feasible?
            tb = traceback.format_exc()
            # an exception raised INSIDE the model of numpy (innermost frame in pvc code, or a TypeError about a pvc class's
            # signature / operands) is a gap of the model, not behaviour of the real code: undecided, never a violation
            last = traceback.extract_tb(e.__traceback__)[-1]
            symcls = r"\b(SArr|Sigma|SInt|SReal|SBool|SList|Cx|SpecFn|AscendingInts)\b"
            in_model = (os.sep + 'pvc' + os.sep) in last.filename or (os.sep + 'z3' + os.sep) in last.filename
            model_gap = (in_model and (isinstance(e, (TypeError, AttributeError, NotImplementedError, RecursionError)) or type(e).__name__ in ('ArgumentError', 'Z3Exception'))) or \
                bool(isinstance(e, TypeError) and re.search(symcls, str(e)) and re.search(r"unexpected keyword|positional argument|unsupported operand|not supported|object is not|cannot be interpreted|must be", str(e))) or \
                bool(isinstance(e, KeyError) and (re.search(symcls, str(e)) or any(type(a_).__module__.startswith('pvc') for a_ in e.args)))
            # (a KeyError whose key IS a symbolic value: a dict / cache lookup keyed by an input, which the model cannot hash to a concrete entry)
            if not model_gap and isinstance(e, TypeError):
                # a call-signature error (raised at the call site, i.e. in a repository frame) against a function of the numpy MODEL:
                # the real numpy accepts the call (e.g. np.clip(..., out=...)), the model does not know the argument
                msig = re.match(r"(?:\w+\.)*(\w+)\(\) (got an unexpected keyword argument|got multiple values|missing \d+ required|takes (?:from )?\d+)", str(e))
                if msig:
                    from pvc import symnp as _symnp, symarr as _symarr
                    nm = msig.group(1)
                    model_gap = hasattr(_symnp, nm) or hasattr(_symarr.SArr, nm) or hasattr(getattr(_symnp, 'fft', None), nm) or hasattr(getattr(_symnp, 'linalg', None), nm)
            if not model_gap and isinstance(e, (KeyError, AttributeError)) and (os.sep + 'contracts' + os.sep) in last.filename:
                model_gap = True       # the harness could not reach what it wanted to look at (private cache / attribute): a limit of the harness
            if model_gap:
                errors.append('unsupported: %s' % e)
                ctx.results.append(('supported-subset', 'unknown', {'reason': 'unsupported (model gap): %s: %s' % (type(e).__name__, e), 't': 0, 'safety': False}))
                r = z3.unsat
            else:
                full = z3.Solver()          # the FULL path condition decides whether this path exists
                full.set('timeout', 8000)
                for p_ in ctx.pc:
                    full.add(p_)
                r = full.check()
            if r != z3.unsat:
                info = {'t': 0, 'safety': False, 'exception': '%s: %s' % (type(e).__name__, e),
                        'traceback': tb[-1500:], 'path': ''.join('T' if d else 'F' for d in ctx.trail)}
                if r == z3.sat:
                    info['model'] = sc.extract_model(sc.small_model(full))
                    info['abstract'] = any(sc._uses_uf(p) for p in ctx.pc)
                    ctx.results.append(('no-exception', 'sat', info))
                else:
                    info['reason'] = 'exception on a path whose feasibility is undecided: %s' % info['exception']
                    ctx.results.append(('no-exception', 'unknown', info))
        npaths += 1
        for (name, verdict, info) in ctx.results:
            o = obl.setdefault(name, {'paths': 0, 'verdict': 'unsat', 't': 0.0, 'safety': info.get('safety', False)})
            o['paths'] += 1
            o['t'] += info.get('t', 0.0)
            if info.get('backend'):
                o.setdefault('backends', [])
                if info['backend'] not in o['backends']:
                    o['backends'].append(info['backend'])
            if verdict == 'sat' and o['verdict'] != 'sat':
                o['verdict'] = 'sat'
                for k in ('model', 'abstract', 'site', 'exception', 'traceback', 'path'):
                    if k in info:
                        o[k] = info[k]
            elif verdict == 'unknown' and o['verdict'] == 'unsat':
                o['verdict'] = 'unknown'
                o['reason'] = info.get('reason', '')
        if npaths >= max_paths:
            obl.setdefault('path-budget', {'paths': 0, 'verdict': 'unknown', 't': 0, 'safety': False,
                                           'reason': 'more than %d paths' % max_paths})
            break
    return {'obligations': obl, 'npaths': npaths, 'solver_s': ctx.solver_s, 'wall_s': time.time() - t0,
            'axioms': sorted(ctx.axiom_log), 'assumed': list(dict.fromkeys(ctx.assumed)), 'errors': errors,
            'feas_checks': ctx.stats['feas']}


def _worker(conn, prop, hkey, vi, tier, max_paths):
    try:
        os.environ['PVC_MODE'] = 'symbolic'
        sys.setrecursionlimit(20000)
        mod, hs = load_contracts(prop)
        h = [x for x in hs if x.key == hkey][0]
        res = explore(h, h.variants[vi], tier, max_paths)
        conn.send(res)
    except BaseException as e:
        conn.send({'crash': '%s: %s\n%s' % (type(e).__name__, e, traceback.format_exc()[-3000:])})
    finally:
        conn.close()


def run_tasks(prop, tasks, tier, jobs, task_timeout, max_paths):
    """tasks: list of (hkey, vi). returns dict[(hkey,vi)] -> result"""
    ctxm = mp.get_context('fork')
    pending = list(tasks)
    running = {}
    results = {}
    while pending or running:
        while pending and len(running) < jobs:
            t = pending.pop(0)
            pc, cc = ctxm.Pipe(duplex=False)
            p = ctxm.Process(target=_worker, args=(cc, prop, t[0], t[1], tier, max_paths))
            p.start()
            cc.close()
            running[t] = (p, pc, time.time())
        done = []
        for t, (p, pc, t0) in running.items():
            if pc.poll(0.02):
                try:
                    results[t] = pc.recv()
                except EOFError:
                    results[t] = {'crash': 'worker died without result'}
                p.join(5)
                done.append(t)
            elif not p.is_alive():
                results[t] = {'crash': 'worker exited (code %s) without result' % p.exitcode}
                done.append(t)
            elif time.time() - t0 > task_timeout:
                p.kill()
                p.join(5)
                results[t] = {'timeout': task_timeout}
                done.append(t)
        for t in done:
            running.pop(t)
        if not done:
            time.sleep(0.02)
    return results


# ------------------------------------------------------------------ replay side
def safe(s):
    return re.sub(r'[^A-Za-z0-9_.\-]+', '_', s)[:150]


REPLAY_TMPL = '''#!/venv/bin/python
"""pvc replay file (generated).  Run:  /venv/bin/python %(relpath)s
Re-evaluates the failed contract clause on the real prysm function with the verifier's
counter-model as input (concrete mode of the same harness text)."""
SPEC = %(spec)s
if __name__ == '__main__':
    import os, sys
    os.environ['PVC_MODE'] = 'concrete'
    here = os.path.dirname(os.path.abspath(__file__))
    sys.path.insert(0, os.path.dirname(os.path.dirname(here)))
    from pvc.replay import main
    sys.exit(main(SPEC))
'''


def write_replay(prop, oname, spec):
    d = os.path.join(VERIF, 'replay', prop)
    os.makedirs(d, exist_ok=True)
    path = os.path.join(d, safe(oname) + '.py')
    rel = os.path.relpath(path, VERIF)
    with open(path, 'w') as f:
        f.write(REPLAY_TMPL % {'relpath': rel, 'spec': json.dumps(spec, indent=1, default=str)
                               .replace('true', 'True').replace('false', 'False').replace('null', 'None')})
    return path


def run_replay(path, timeout=300):
    env = dict(os.environ)
    env['PVC_MODE'] = 'concrete'
    env['PYTHONPATH'] = VERIF + os.pathsep + REPO
    try:
        p = subprocess.run([VENV_PY, path], capture_output=True, text=True, timeout=timeout, env=env, cwd=VERIF)
        return p.returncode, (p.stdout + p.stderr)[-4000:]
    except subprocess.TimeoutExpired:
        return 4, 'replay timeout'


def concrete_sweep(prop, jobs_spec, seeds, box, timeout=900):
    """run harnesses concretely (cover / bounded) in one /venv subprocess. jobs_spec: list of dict(h, vi)"""
    env = dict(os.environ)
    env['PVC_MODE'] = 'concrete'
    env['PYTHONPATH'] = VERIF + os.pathsep + REPO
    spec = {'prop': prop, 'jobs': jobs_spec, 'seeds': seeds, 'box': box}
    try:
        p = subprocess.run([VENV_PY, '-m', 'pvc.replay', '--sweep', json.dumps(spec)], capture_output=True, text=True,
                           timeout=timeout, env=env, cwd=VERIF)
    except subprocess.TimeoutExpired:
        return None, 'sweep timeout'
    out = p.stdout
    m = re.search(r'^SWEEP-RESULT (.*)$', out, re.M)
    if not m:
        return None, (out + p.stderr)[-3000:]
    return json.loads(m.group(1)), ''


def load_known(prop):
    path = os.path.join(VERIF, 'known_findings.jsonl')
    out = []
    if os.path.exists(path):
        for line in open(path):
            line = line.strip()
            if not line or line.startswith('#'):
                continue
            try:
                e = json.loads(line)
            except Exception:
                continue
            if e.get('property') == prop:
                out.append(e)
    return out


def match_known(known, oname):
    for e in known:
        if e.get('status') == 'open' and re.search(e['obligation'], oname):
            return e
    return None


# -------------------------------------------------------------------- main check
def check_property(prop, tier='quick', only=None, jobs=None, verbose=False, seed=0):
    t_start = time.time()
    jobs = jobs or min(12, os.cpu_count() or 4)
    mod, hs = load_contracts(prop)
    hs = [h for h in hs if tier in h.tiers]
    if only:
        hs = [h for h in hs if re.search(only, h.key)]
    sym_h = [h for h in hs if h.kind in ('proof', 'lemma')]
    bnd_h = [h for h in hs if h.kind == 'bounded']
    tasks = [(h.key, vi) for h in sym_h for vi in range(len(h.variants))]
    hmap = {h.key: h for h in hs}
    task_timeout = 900 if tier == 'quick' else 3600
    max_paths = 400 if tier == 'quick' else 4000
    results = run_tasks(prop, tasks, tier, jobs, task_timeout, max_paths)

    obligations = {}     # full name -> record
    axioms, assumed = set(), []
    solver_s = 0.0
    npaths = 0
    for (hkey, vi), res in sorted(results.items()):
        h = hmap[hkey]
        vname = '' if h.variants[vi] is None else '[%s]' % (json.dumps(h.variants[vi], default=str).replace('"', ''))
        base = '%s%s' % (h.name, vname)
        if 'crash' in res:
            obligations[base + '/checker'] = {'verdict': 'crash', 'detail': res['crash'], 'h': hkey, 'vi': vi}
            continue
        if 'timeout' in res:
            obligations[base + '/checker'] = {'verdict': 'unknown', 'reason': 'task timeout %ss' % res['timeout'], 'h': hkey, 'vi': vi}
            continue
        if not res['obligations']:
            obligations[base + '/non-vacuous'] = {'verdict': 'unknown', 'reason': 'harness produced zero obligations', 'h': hkey, 'vi': vi}
        for name, o in res['obligations'].items():
            o = dict(o)
            o['h'], o['vi'] = hkey, vi
            obligations[base + '/' + name] = o
        axioms.update(res['axioms'])
        for a in res['assumed']:
            if a not in assumed:
                assumed.append(a)
        solver_s += res['solver_s']
        npaths += res['npaths']

    known = load_known(prop)
    violations = []
    known_hits = []
    undecided = []
    crashed = []
    discharged = 0
    samples = []
    backends = {}
    for oname, o in sorted(obligations.items()):
        v = o['verdict']
        if v == 'unsat':
            discharged += 1
            for b in (o.get('backends') or ['z3']):
                backends[b] = backends.get(b, 0) + 1
            if len(samples) < 6 and not o.get('safety'):
                samples.append({'obligation': oname, 'verdict': 'discharged', 'paths': o['paths'], 'solver_s': round(o['t'], 4)})
            continue
        if v == 'crash':
            crashed.append((oname, o))
            continue
        if v == 'sat':
            h = hmap[o['h']]
            spec = {'property': prop, 'obligation': oname, 'harness': h.key, 'variant_index': o['vi'],
                    'variant': h.variants[o['vi']], 'model': o.get('model', {}),
                    'verifier_output': {k: o.get(k) for k in ('abstract', 'site', 'exception', 'traceback', 'path') if k in o},
                    'check': oname.rsplit('/', 1)[-1] if not o.get('safety') else oname[oname.index('/safety') + 1:] if '/safety' in oname else oname}
            path = write_replay(prop, oname, spec)
            rc, out = run_replay(path)
            reproduced = (rc == 1)
            if not reproduced:
                # bounded search with the same contract for a failing real input
                sw, err = concrete_sweep(prop, [{'h': h.key, 'vi': o['vi']}], seeds=40 if tier == 'quick' else 400, box=6)
                if sw and sw['failures']:
                    f = sw['failures'][0]
                    spec['model'] = f.get('model_for_replay', {})
                    spec['found_by'] = 'bounded sweep after non-reproducing counter-model'
                    spec['seed'] = f.get('seed', 0)
                    path = write_replay(prop, oname, spec)
                    rc, out = run_replay(path)
                    reproduced = (rc == 1)
            o['replay'] = os.path.relpath(path, VERIF)
            o['reproduced'] = reproduced
            o['replay_out'] = out[-800:]
            kf = match_known(known, oname)
            if kf:
                known_hits.append((oname, kf))
            else:
                violations.append((oname, o, reproduced))
            continue
        # unknown
        undecided.append((oname, o))

    # bounded harnesses + vacuity covers (concrete, real code, /venv python)
    cover_jobs = [{'h': h.key, 'vi': vi} for h in sym_h if h.kind == 'proof' for vi in range(len(h.variants))]
    bnd_jobs = [{'h': h.key, 'vi': vi} for h in bnd_h for vi in range(len(h.variants))]
    und_jobs = [{'h': o['h'], 'vi': o['vi']} for _, o in undecided if o.get('h') and hmap[o['h']].kind != 'lemma']
    cover = {'runs': 0, 'checks': 0}
    bounded_info = {}
    if cover_jobs or bnd_jobs:
        nseeds = 3 if tier == 'quick' else 25
        sw, err = concrete_sweep(prop, cover_jobs, seeds=nseeds, box=5 if tier == 'quick' else 8)
        if sw is None:
            undecided.append(('concrete-cover', {'verdict': 'unknown', 'reason': 'cover sweep failed: ' + err[-500:]}))
        else:
            cover = {'runs': sw['runs'], 'checks': sw['checks'], 'aborted': sw['aborted'], 'unsupported': sw.get('unsupported', 0)}
            for f in sw['failures']:
                oname = '%s/%s(concrete-cover)' % (f['hname'], f['check'])
                spec = {'property': prop, 'obligation': oname, 'harness': f['h'], 'variant_index': f['vi'],
                        'variant': hmap[f['h']].variants[f['vi']], 'model': f['model_for_replay'], 'seed': f['seed'],
                        'found_by': 'concrete cover of a proved contract (symbolic model and real numpy disagree, or real defect)',
                        'check': f['check'], 'verifier_output': f}
                path = write_replay(prop, oname, spec)
                kf = match_known(known, oname)
                if kf:
                    known_hits.append((oname, kf))
                else:
                    violations.append((oname, {'replay': os.path.relpath(path, VERIF), 'verdict': 'concrete-fail'}, True))
        if bnd_jobs:
            nseeds = 30 if tier == 'quick' else 300
            sw, err = concrete_sweep(prop, bnd_jobs, seeds=nseeds, box=6 if tier == 'quick' else 9,
                                     timeout=600 if tier == 'quick' else 3000)
            if sw is None:
                undecided.append(('bounded-sweep', {'verdict': 'unknown', 'reason': 'bounded sweep failed: ' + err[-500:]}))
            else:
                bounded_info = {'runs': sw['runs'], 'checks': sw['checks'], 'aborted': sw['aborted'],
                                'harnesses': sorted({j['h'] for j in bnd_jobs}), 'seeds': nseeds, 'per_harness': sw.get('per', {})}
                for f in sw['failures']:
                    oname = '%s/%s(bounded)' % (f['hname'], f['check'])
                    spec = {'property': prop, 'obligation': oname, 'harness': f['h'], 'variant_index': f['vi'],
                            'variant': hmap[f['h']].variants[f['vi']], 'model': f['model_for_replay'], 'seed': f['seed'],
                            'found_by': 'bounded stand-in', 'check': f['check'], 'verifier_output': f}
                    path = write_replay(prop, oname, spec)
                    kf = match_known(known, oname)
                    if kf:
                        known_hits.append((oname, kf))
                    else:
                        violations.append((oname, {'replay': os.path.relpath(path, VERIF), 'verdict': 'concrete-fail'}, True))
    # undecided obligations: bounded fallback with the same contract
    fallback = {}
    if und_jobs:
        uj = [dict(t) for t in {tuple(sorted(j.items())) for j in und_jobs if j.get('h')}]
        sw, err = concrete_sweep(prop, uj, seeds=40 if tier == 'quick' else 400, box=6)
        if sw is not None:
            fallback = {'runs': sw['runs'], 'checks': sw['checks']}
            for f in sw['failures']:
                oname = '%s/%s(fallback)' % (f['hname'], f['check'])
                spec = {'property': prop, 'obligation': oname, 'harness': f['h'], 'variant_index': f['vi'],
                        'variant': hmap[f['h']].variants[f['vi']], 'model': f['model_for_replay'], 'seed': f['seed'],
                        'found_by': 'bounded fallback for an undecided obligation', 'check': f['check'], 'verifier_output': f}
                path = write_replay(prop, oname, spec)
                kf = match_known(known, oname)
                if kf:
                    known_hits.append((oname, kf))
                else:
                    violations.append((oname, {'replay': os.path.relpath(path, VERIF), 'verdict': 'concrete-fail'}, True))

    # ------------------------------------------------------------ report
    lines = []
    seen_k = set()
    by_entry = {}
    for oname, kf in known_hits:
        by_entry.setdefault(kf.get('obligation', oname), (kf, []))[1].append(oname)
    for _key, (kf, onames) in by_entry.items():
        # one line per listed finding (the obligations that hit it follow in brackets)
        uniq = sorted(set(onames))
        seen_k.update(uniq)
        lines.append('KNOWN-FINDING: property=%s %s [%s]' % (prop, kf.get('what', ''), '; '.join(uniq)))
    seen_v = set()
    for oname, o, reproduced in violations:
        if oname in seen_v:
            continue
        seen_v.add(oname)
        tail = '' if reproduced else ' no-failing-input-found'
        lines.append('VIOLATION property=%s replay=%s obligation=%s%s' % (prop, o.get('replay', ''), oname, tail))
    for oname, o in undecided:
        lines.append('UNDECIDED property=%s obligation=%s reason=%s' % (prop, oname, str(o.get('reason', ''))[:300]))
    for oname, o in crashed:
        lines.append('CHECKER-CRASH property=%s obligation=%s %s' % (prop, oname, o.get('detail', '')[-1500:]))
    n_obl = len(obligations)
    wall = time.time() - t_start
    if bounded_info:
        for hn, st in list(bounded_info.get('per_harness', {}).items())[:4]:
            samples.append({'bounded_harness': hn, 'concrete_runs': st['runs'], 'checks_evaluated': st['checks'],
                            'aborted': st['aborted'], 'seeds': bounded_info.get('seeds')})
    nontrivial_runs = (bounded_info.get('runs', 0) - bounded_info.get('aborted', 0)) + (cover.get('runs', 0) or 0) - (cover.get('aborted', 0) or 0)
    fuc = sorted({f for h in hs for f in h.fuc})
    all_ok = (discharged == n_obl and not violations and not undecided and not crashed)
    level = 'proof' if (discharged == n_obl and n_obl > 0) else 'other'
    try:
        man = json.load(open(os.path.join(VERIF, 'MANIFEST.json')))
        for c_ in man.get('checks', []):
            if c_['property_id'] == prop and c_['level_claimed']['category'] in ('other', 'exploration'):
                level = c_['level_claimed']['category']      # claimed at a weaker level (large bounded part): evidence says the same
    except Exception:
        pass
    ev = {
        'property_id': prop, 'tier': tier, 'seed': seed, 'level': level, 'wall_s': round(wall, 2),
        'violations': len(seen_v),
        'coverage': {
            'obligations': n_obl, 'discharged': discharged,
            'checker_cmd': 'python3-vt -m pvc check %s --tier %s' % (prop, tier),
            'trusted_base': sorted(axioms) + ['z3 %s (SMT back end)' % _z3v(), 'CPython %s' % sys.version.split()[0],
                                              'pvc symbolic numpy model (/verif/pvc/symnp.py, symarr.py, symcore.py)'],
            'explanation': 'contract harnesses over the real functions re-imported from %s on this run; every path explored; '
                           'each check is a VC pc /\\ not(post) discharged by z3 (unsat). %d obligations, %d discharged, %d known findings, '
                           '%d violations, %d undecided.' % (REPO, n_obl, discharged, len(known_hits), len(seen_v), len(undecided)),
            'functions_under_contract': fuc,
            'harnesses': len(hs), 'variants': len(tasks), 'paths_explored': npaths,
            'backends': backends, 'solver_s': round(solver_s, 2),
            'concrete_cover': cover, 'bounded': bounded_info, 'fallback': fallback,
            'known_findings': [k for k, _ in known_hits],
            'undecided': [k for k, _ in undecided], 'samples': samples or [{'obligation': k} for k in list(obligations)[:3]],
            'evaluations': max(1, npaths + cover.get('runs', 0) + bounded_info.get('runs', 0)),
            'distinct_nontrivial': max(n_obl, nontrivial_runs) if level in ('exploration',) else max(2, n_obl),
            'rule': 'one case = one (harness, variant, path) symbolic execution or one concrete cover/bounded run (distinct seed or skolem '
                    'choice, not aborted by its precondition); distinct_nontrivial counts distinct named obligations (proof/other) or '
                    'distinct non-aborted concrete runs (exploration)',
        },
        'assumptions': GLOBAL_ASSUMPTIONS + assumed,
    }
    os.makedirs(os.path.join(VERIF, 'evidence'), exist_ok=True)
    if not only:
        with open(os.path.join(VERIF, 'evidence', '%s.json' % prop), 'w') as f:
            json.dump(ev, f, indent=1, default=str)
    for ln in lines:
        print(ln)
    print('SUMMARY property=%s tier=%s obligations=%d discharged=%d known=%d violations=%d undecided=%d crashed=%d paths=%d '
          'solver_s=%.1f wall_s=%.1f cover_runs=%s' % (prop, tier, n_obl, discharged, len(known_hits), len(seen_v), len(undecided),
                                                      len(crashed), npaths, solver_s, wall, cover.get('runs')))
    if verbose:
        for oname, o in sorted(obligations.items()):
            print('  %-8s %s paths=%s t=%.3f %s' % (o['verdict'], oname, o.get('paths'), o.get('t', 0), o.get('reason', '') or o.get('exception', '')))
    if seen_v:
        return 1
    if crashed:
        return 3
    if undecided:
        # undecided after a clean bounded fallback: not an alarm (DESIGN 1.6), but not a proof either
        return 0 if fallback else 2
    return 0


def _z3v():
    try:
        import z3
        return z3.get_version_string()
    except Exception:
        return '?'


def main(argv=None):
    import argparse
    ap = argparse.ArgumentParser(prog='pvc')
    sub = ap.add_subparsers(dest='cmd')
    c = sub.add_parser('check')
    c.add_argument('prop')
    c.add_argument('--tier', default=os.environ.get('VERIF_TIER', 'quick'))
    c.add_argument('--only', default=None)
    c.add_argument('--jobs', type=int, default=None)
    c.add_argument('-v', action='store_true')
    l = sub.add_parser('list')
    l.add_argument('prop')
    a = ap.parse_args(argv)
    if a.cmd == 'list':
        mod, hs = load_contracts(a.prop)
        for h in hs:
            print(h.key, h.kind, len(h.variants), h.fuc)
        return 0
    if a.cmd == 'check':
        tier = a.tier if a.tier in ('quick', 'thorough') else 'quick'
        seed = int(os.environ.get('VERIF_SEED', '0') or 0)
        try:
            return check_property(a.prop, tier, a.only, a.jobs, a.v, seed)
        except SystemExit:
            raise
        except BaseException:
            traceback.print_exc()
            return 3
    ap.print_help()
    return 3
