"""concrete-mode driver: replay of a counter-model, vacuity cover, bounded sweeps.
Runs under /venv/bin/python (the repository's own environment); imports no z3."""
import importlib
import json
import os
import sys
import time

os.environ['PVC_MODE'] = 'concrete'
VERIF = os.path.dirname(os.path.dirname(os.path.abspath(__file__)))
if VERIF not in sys.path:
    sys.path.insert(0, VERIF)


def _load(prop):
    from pvc import registry
    importlib.import_module('contracts.%s' % prop.lower())
    return registry.HARNESSES


def main(spec):
    """replay one obligation. exit 1 = failure reproduced on the real code, 0 = clause held."""
    from pvc import concrete
    hs = _load(spec['property'])
    h = hs[spec['harness']]
    variant = h.variants[spec['variant_index']]
    want = spec.get('check')
    failures, nruns, nchecks, status = concrete.run_concrete(h.fn, variant, spec.get('model') or {}, seed=spec.get('seed', 0))
    print('replay obligation : %s' % spec['obligation'])
    print('harness / variant : %s / %s' % (spec['harness'], json.dumps(variant, default=str)))
    print('model             : %s' % json.dumps(spec.get('model'), default=str)[:1500])
    print('verifier output   : %s' % json.dumps(spec.get('verifier_output'), default=str)[:1500])
    print('concrete runs=%d checks=%d status=%s' % (nruns, nchecks, status))
    if failures:
        for f in failures[:5]:
            print('FAILED on real code: check=%s %s inputs=%s skolem=%s' % (f['check'], f.get('exception', ''),
                                                                          json.dumps(f['drawn'], default=str)[:600], f['choices']))
        print('REPLAY: violation reproduced on the real code')
        return 1
    print('REPLAY: clause held on the real code for this input (no failing input found)')
    return 0


def sweep(spec):
    from pvc import concrete
    hs = _load(spec['prop'])
    out = {'runs': 0, 'checks': 0, 'aborted': 0, 'unsupported': 0, 'failures': [], 'per': {}}
    concrete.ctx.box = spec.get('box', 6)
    for job in spec['jobs']:
        h = hs[job['h']]
        variant = h.variants[job['vi']]
        vname = '' if variant is None else '[%s]' % json.dumps(variant, default=str).replace('"', '')
        per = out['per'].setdefault(h.name, {'runs': 0, 'checks': 0, 'aborted': 0})
        nfail = {}          # per check name: a known finding at seed 0 must not end the sweep for the other checks
        for seed in range(h.seeds or spec['seeds']):
            failures, nruns, nchecks, status = concrete.run_concrete(h.fn, variant, {}, seed=seed, max_runs=3000)
            out['runs'] += nruns
            out['checks'] += nchecks
            per['runs'] += nruns
            per['checks'] += nchecks
            if status == 'abort':
                out['aborted'] += 1
                per['aborted'] += 1
            if status.startswith('unsupported'):
                out['unsupported'] += 1
            for f in failures:
                if nfail.get(f['check'], 0) >= 2:
                    continue
                model = {}
                for k, v in f['drawn'].items():
                    if not isinstance(v, dict):
                        model[k] = v
                for (n, v) in f['choices']:
                    model[n] = v
                out['failures'].append({'h': h.key, 'vi': job['vi'], 'hname': h.name + vname, 'check': f['check'], 'seed': seed,
                                        'exception': f.get('exception', ''), 'model_for_replay': model})
                nfail[f['check']] = nfail.get(f['check'], 0) + 1
    print('SWEEP-RESULT ' + json.dumps(out, default=str))
    return 0


if __name__ == '__main__':
    if len(sys.argv) >= 3 and sys.argv[1] == '--sweep':
        sys.exit(sweep(json.loads(sys.argv[2])))
    print('usage: python -m pvc.replay --sweep <json>')
    sys.exit(3)
