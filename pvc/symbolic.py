"""Harness API, symbolic mode (python3-vt: z3 present)."""
import builtins
import importlib
import os
import sys

import z3

from . import symcore as sc
from . import symnp
from . import symarr
from .symcore import (ctx, SInt, SReal, SBool, Sc, Cx, PathAbort, Unsupported, StopPath, assume, check, And, Or, Not,
                      Implies, ite, lift, fresh_int, fresh_real, smax, smin)
from .symarr import SArr, Sigma, DT

MODE = 'symbolic'
pi = symnp.pi
_installed = False


def install():
    """swap prysm's numerical backend for the symbolic model (prysm.mathops BackendShim) and
    shadow the few builtins / stdlib names that must accept symbolic values."""
    global _installed
    if _installed:
        return
    repo = sc.REPO
    if repo not in sys.path:
        sys.path.insert(0, repo)
    import prysm
    from prysm import mathops
    for m in ('prysm.fttools', 'prysm.propagation', 'prysm.coordinates', 'prysm._richdata', 'prysm.psf',
              'prysm.geometry', 'prysm.polynomials', 'prysm.polynomials.qpoly', 'prysm.detector', 'prysm.bayer',
              'prysm.thinfilm', 'prysm.convolution', 'prysm.otf', 'prysm.interferogram', 'prysm.io',
              'prysm.segmented', 'prysm.util', 'prysm.x.polarization', 'prysm.x.raytracing.spencer_and_murty',
              'prysm.x.raytracing.surfaces', 'prysm.x.dm', 'prysm.x.optym.activation', 'prysm.x.optym.cost',
              'prysm.x.optym.operators', 'prysm.degredations', 'prysm.objects'):
        try:
            importlib.import_module(m)
        except Exception as e:   # a module that fails to import is reported when a harness needs it
            pass
    mathops.np._srcmodule = symnp
    mathops.fft._srcmodule = symnp.fft
    mathops.ndimage._srcmodule = symnp.ndimage
    # functools.lru_cache wrappers hash their arguments: symbolic values are unhashable, and the cached
    # functions are pure, so the wrapper is bypassed (the wrapped body is what runs)
    import functools
    for name, mod in list(sys.modules.items()):
        if (name == 'prysm' or name.startswith('prysm.')) and mod is not None:
            for k, v in list(mod.__dict__.items()):
                if isinstance(v, functools._lru_cache_wrapper):
                    mod.__dict__[k] = v.__wrapped__
    import numbers
    numbers.Integral.register(SInt)
    numbers.Real.register(SReal)
    import math as _m
    import numpy as _n
    for name, mod in list(sys.modules.items()):
        if not (name == 'prysm' or name.startswith('prysm.')) or mod is None:
            continue
        d = mod.__dict__
        for k, v in list(d.items()):
            if v is _m:
                d[k] = symnp.math
            elif v is _n and name != 'prysm.mathops':
                d[k] = symnp
        for k, v in symnp.BUILTIN_PATCH.items():
            if k not in d or d[k] is getattr(builtins, k):
                d[k] = v
    _installed = True


def get(path):
    """resolve 'prysm.fttools.pad2d' to the live object"""
    install()
    parts = path.split('.')
    for k in range(len(parts), 0, -1):
        try:
            obj = importlib.import_module('.'.join(parts[:k]))
        except ImportError:
            continue
        for p in parts[k:]:
            obj = getattr(obj, p)
        return obj
    raise ImportError(path)


def call(path, *a, **kw):
    f = get(path) if isinstance(path, str) else path
    return f(*a, **kw)


def Int(name, lo=None, hi=None):
    v = z3.Int(name)
    ctx.inputs[name] = ('int', v)
    if lo is not None:
        ctx.add(v >= lo)
    if hi is not None:
        ctx.add(v <= hi)
    return SInt(v)


def Real(name, lo=None, hi=None, pos=False, nonzero=False):
    v = z3.Real(name)
    ctx.inputs[name] = ('real', v)
    if lo is not None:
        ctx.add(v >= sc.zreal(lo))
    if hi is not None:
        ctx.add(v <= sc.zreal(hi))
    if pos:
        ctx.add(v > 0)
    if nonzero:
        ctx.add(v != 0)
    return SReal(v)


def Bool(name):
    v = z3.Bool(name)
    ctx.inputs[name] = ('bool', v)
    return SBool(v)


def Array(name, shape, kind='f', bits=64, lo=None, hi=None):
    """fresh input array.  lo/hi: bounds that hold for EVERY element (a universally quantified
    precondition, instantiated at each element the execution touches)."""
    if kind == 'c' and bits == 64:
        bits = 128
    a = symnp.sym_array(name, tuple(shape), DT(kind, bits if kind != 'b' else None))
    if lo is not None or hi is not None:
        src = a._fn

        def fn(ix, src=src):
            v = src(ix)
            if lo is not None:
                ctx.add((v >= lo).z)
            if hi is not None:
                ctx.add((v <= hi).z)
            return v
        a._fn = fn
    return a


def idx(n, name):
    """skolem index 0 <= k < n (universal quantification in a checked clause)."""
    k = Int(name)
    ctx.add(k.z >= 0)
    ctx.add((k < n).z) if not isinstance(n, int) else ctx.add(k.z < n)
    ctx.add_hint(k)
    return k


def hint(*terms):
    """index terms at which universally quantified library facts (argmin/argmax...) are instantiated"""
    for t in terms:
        ctx.add_hint(lift(t))


def Delta(shape, pos, amp, kind='f'):
    """point source: amp at index pos, zero elsewhere"""
    dt = DT(kind, 64 if kind == 'f' else 128)
    a = SArr(tuple(shape), lambda ix: ite(And(*[lift(i) == p for i, p in zip(ix, pos)]), amp, amp * 0), dt)
    a._delta = tuple(pos)
    return a


class stub:
    """modular reasoning: inside the block, `module.name` is replaced by the callee's contract
    (a functional specification proved separately against the callee's real body)."""
    def __init__(self, module, name, spec):
        self.module, self.name, self.spec = module, name, spec

    def __enter__(self):
        install()
        self.mod = importlib.import_module(self.module)
        self.old = getattr(self.mod, self.name)
        setattr(self.mod, self.name, self.spec)
        ctx.axiom_log.add('callee-contract:%s.%s' % (self.module, self.name))
        return self

    def __exit__(self, *a):
        setattr(self.mod, self.name, self.old)
        return False


def did_raise(fn, *exc):
    """run fn(); True on this path iff the real code raised (one of exc, default any Exception)."""
    exc = exc or (Exception,)
    try:
        fn()
    except (PathAbort, Unsupported, StopPath):
        raise
    except exc:
        return True
    return False


def approx(a, b, tol=None):
    """equality (exact in symbolic mode, tolerance in concrete mode)"""
    return a == b


def eq(a, b):
    return a == b


def isarray(x):
    return isinstance(x, SArr)


def shape_is(a, *dims):
    """boolean: array a has exactly this shape (rank is concrete)"""
    if not isinstance(a, SArr):
        return len(dims) == 0 and isinstance(a, (Sc, Cx, int, float, complex))
    if a.ndim != len(dims):
        return False
    return And(*[lift(x) == lift(y) for x, y in zip(a.shape, dims)])


def note(s):
    ctx.assumed.append(s)


def kind_of(a):
    """dtype tag of an array / scalar: (kind, bits)"""
    d = a.dtype
    return (d.kind, d.bits)


def cx(re, im=0):
    return Cx.from_reim(re, im)


def expi(theta):
    return Cx.expi(theta)


def sqrt(x):
    return sc.ssqrt(x)


def cos(x):
    return sc.scos(x)


def sin(x):
    return sc.ssin(x)


def floor(x):
    return sc.sfloor(x)


def ceil(x):
    return sc.sceil(x)


def sigma(n, f, lo=0):
    return Sigma.make(n, f, lo=lo)


def vary_layout(rng, a):
    """symbolic twin: memory layout is not part of the value model"""
    return a


def sum_value(s):
    """the value of a real Sigma-term as a scalar (an atom shared by alpha-equivalent sums), for use as a factor or divisor"""
    from .symarr import sigma_atom
    return sigma_atom(s) if isinstance(s, Sigma) else s


def elem(a, *i):
    """element of an array-like at index tuple"""
    if isinstance(a, SArr):
        return a.at(*i)
    if not i:
        return a
    return a[i] if len(i) > 1 else a[i[0]]


def abs2(z):
    if isinstance(z, Cx):
        return z.abs2()
    return z * z


def stop_path():
    raise StopPath()


class noise:
    """install a noise model for np.random through prysm.mathops' backend shim.
    kind='free': shot noise = expected electrons, read noise = 0 (noise sources switched off).
    kind='havoc': arbitrary draws (poisson: integer >= 0, normal: real); arrays recorded on the handle."""
    def __init__(self, kind):
        self.kind = kind
        self.shot = None
        self.read = None

    def _hook(self, which, params, size):
        shp = symnp._shape(size)
        if which == 'poisson':
            if self.kind == 'free':
                self.shot = symnp.broadcast_to(symnp.asarray(params).astype(symnp.float64), shp)
            else:
                a = symnp.sym_array('shot', shp, DT('i', 64), register=True)
                src = a._fn

                def fn(ix, src=src):
                    v = src(ix)
                    ctx.add(v.z >= 0)
                    return v
                a._fn = fn
                self.shot = a
            return self.shot
        if self.kind == 'free':
            self.read = symnp.zeros(shp)
        else:
            self.read = symnp.sym_array('read', shp, DT('f', 64), register=True)
        return self.read

    def __enter__(self):
        install()
        symnp.random.hook = self._hook
        return self

    def __exit__(self, *a):
        symnp.random.hook = None
        return False


class no_div_safety:
    """suspend the automatic 'denominator != 0' safety obligations (used where the same divisions are
    already discharged by another harness of the same property; stated in the harness docstring)."""
    def __enter__(self):
        self.old = ctx.div_safety
        ctx.div_safety = 'assume'
        return self

    def __exit__(self, *a):
        ctx.div_safety = self.old
        return False


from .loops import cut_loops, Invariant, PredInvariant, SList, seq_len, seq_get   # noqa


def skolem(n, name='p'):
    """fresh internal index 0 <= p < n for use inside invariants / lemmas (not a replayable input)"""
    k = fresh_int(name)
    ctx.add(k.z >= 0)
    ctx.add((k < n).z if not isinstance(n, int) else k.z < n)
    ctx.add_hint(k)
    return k

from .spec import SpecFn   # noqa


def use_lemma(name, cond):
    """assume an instance of a lemma that is proved (by induction) in the lemma harness `name` of the same property"""
    ctx.add(sc.tobool(cond))
    ctx.assumed.append('lemma instance assumed: %s (discharged by its own lemma harness)' % name)
    ctx.axiom_log.add('lemma:%s' % name)


def AscendingInts(name, lo=0):
    """symbolic strictly ascending list of integers ns (length L >= 1, ns[0] >= lo): an SList whose sortedness is a
    universally quantified precondition instantiated at every pair of hint terms."""
    L = Int(name + '.len', 1)
    f = z3.Function(name, z3.IntSort(), z3.IntSort())
    ctx.inputs[name] = ('array', [L], [f], 'i')
    touched = {}

    def getter(p):
        p = lift(p)
        pz = z3.simplify(p.z)
        if pz.get_id() not in touched:
            touched[pz.get_id()] = pz
            ctx.add_hint(SInt(pz))       # sortedness is instantiated at every index the execution touches
        return SInt(f(pz))
    ns = SList(L, getter)
    ctx.add(f(z3.IntVal(0)) >= lo)
    seen = []

    def inst(t):
        if not isinstance(t, SInt):
            return z3.BoolVal(True)
        cs = [z3.Implies(z3.And(t.z >= 0, t.z < L.z), f(t.z) >= lo + t.z)]       # strictly ascending from lo: ns[t] >= lo + t
        if any(t.z.eq(u.z) for u in seen):
            return z3.BoolVal(True)
        for u in seen:
            cs.append(z3.Implies(z3.And(0 <= t.z, t.z < u.z, u.z < L.z), f(t.z) < f(u.z)))
            cs.append(z3.Implies(z3.And(0 <= u.z, u.z < t.z, t.z < L.z), f(u.z) < f(t.z)))
        seen.append(t)
        return z3.And(*cs)
    ctx.add_forall(inst)
    ctx.add_hint(lift(0))
    ctx.add_hint(L - 1)
    return ns, L
