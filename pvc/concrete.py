"""Harness API, concrete mode: the same contract text evaluated on the real functions
with real numpy values (replay of counterexamples, vacuity covers, bounded stand-in).
No z3 import here: replay runs under /venv/bin/python."""
import fractions
import importlib
import math
import os
import random
import sys

import numpy as np

MODE = 'concrete'
pi = math.pi
REPO = os.environ.get('PVC_REPO', '/repo')


class PathAbort(Exception):
    pass


class Unsupported(Exception):
    pass


class StopPath(Exception):
    pass


class CCtx:
    def __init__(self):
        self.model = {}
        self.rng = random.Random(0)
        self.nrng = np.random.default_rng(0)
        self.results = []      # (name, ok, detail)
        self.choices = []      # enumerated skolem indices: list of [name, n, value]
        self.choice_pos = 0
        self.drawn = {}
        self.tol = 1e-9
        self.box = 6
        self.assumed = []

    def begin(self, model, seed=0, choices=None):
        self.model = dict(model or {})
        self.rng = random.Random(seed)
        self.nrng = np.random.default_rng(seed)
        self.results = []
        self.choices = choices if choices is not None else []
        self.choice_pos = 0
        self.drawn = {}


ctx = CCtx()


def install():
    if REPO not in sys.path:
        sys.path.insert(0, REPO)


def get(path):
    install()
    parts = path.split('.')
    for k in range(len(parts), 0, -1):
        try:
            obj = importlib.import_module('.'.join(parts[:k]))
        except ImportError:
            continue
        for p in parts[k:]:
            obj = getattr(obj, p)
        return obj
    raise ImportError(path)


def call(path, *a, **kw):
    f = get(path) if isinstance(path, str) else path
    return f(*a, **kw)


def _frac(v):
    if isinstance(v, list) and len(v) == 2:
        return float(fractions.Fraction(v[0], v[1]))
    if isinstance(v, str):
        try:
            return float(fractions.Fraction(v.rstrip('?')))
        except Exception:
            return 1.0
    return float(v)


def Int(name, lo=None, hi=None):
    if name in ctx.model:
        v = int(ctx.model[name])
    else:
        a = lo if lo is not None else -ctx.box
        b = hi if hi is not None else (a + ctx.box + 2)      # an explicit upper bound is used in full (e.g. seeds)
        v = ctx.rng.randint(a, b)
    ctx.drawn[name] = v
    return v


def Real(name, lo=None, hi=None, pos=False, nonzero=False):
    if name in ctx.model:
        v = _frac(ctx.model[name])
    else:
        a = lo if lo is not None else (0.0 if pos else -3.0)
        b = hi if hi is not None else a + 6.0
        v = ctx.rng.choice([ctx.rng.uniform(a, b), round(ctx.rng.uniform(a, b) * 4) / 4])
        if pos and v <= 0:
            v = 0.37
        if nonzero and v == 0:
            v = 0.61
    ctx.drawn[name] = v
    return v


def Bool(name):
    if name in ctx.model:
        v = bool(ctx.model[name])
    else:
        v = ctx.rng.random() < 0.5
    ctx.drawn[name] = v
    return v


def Array(name, shape, kind='f', bits=64, lo=None, hi=None):
    shape = tuple(int(d) for d in shape)
    vals = ctx.model.get(name + '.values')
    mshape = ctx.model.get(name + '.shape')
    if kind == 'c' and bits == 64:
        bits = 128
    dt = {'f': 'float%d' % bits, 'c': 'complex%d' % bits, 'i': 'int64', 'u': 'uint64', 'b': 'bool'}[kind]
    n = int(np.prod(shape)) if shape else 1
    if n > 4_000_000 or any(d < 0 for d in shape):
        raise PathAbort('array too large for a concrete replay: %s' % (shape,))
    if vals is not None and mshape is not None and tuple(mshape) == shape and len(vals) == n:
        if kind == 'c':
            a = np.array([complex(v[0], v[1]) for v in vals]).reshape(shape)
        else:
            a = np.array(vals).reshape(shape)
        # degenerate (all-equal) model arrays hide placement errors: perturb reproducibly
        if kind in 'fc' and n > 1 and np.ptp(np.abs(a)) == 0:
            a = a + ctx.nrng.standard_normal(shape)
        a = a.astype(dt)
    else:
        if kind == 'f':
            a = ctx.nrng.standard_normal(shape)
        elif kind == 'c':
            a = ctx.nrng.standard_normal(shape) + 1j * ctx.nrng.standard_normal(shape)
        elif kind in 'iu':
            a = ctx.nrng.integers(0 if kind == 'u' else -9, 10, size=shape)
        else:
            a = ctx.nrng.random(shape) < 0.5
        a = np.asarray(a).astype(dt)
    if lo is not None or hi is not None:
        lo_ = lo if lo is not None else (hi - 10)
        hi_ = hi if hi is not None else (lo + 10)
        if kind in 'iu':
            a = (np.abs(a.astype(np.int64)) % (int(hi_) - int(lo_) + 1) + int(lo_)).astype(dt)
        else:
            a = np.clip(a, lo_, hi_) if (a.min() < lo_ or a.max() > hi_) and vals is not None else \
                (lo_ + (hi_ - lo_) * ctx.nrng.random(shape)).astype(dt) if vals is None else a
    ctx.drawn[name] = {'shape': list(shape)}
    return a


def idx(n, name):
    """skolem index: model value if given, else enumerated by the driver"""
    n = int(n)
    if name in ctx.model and 0 <= int(ctx.model[name]) < n:
        return int(ctx.model[name])
    if n <= 0:
        raise PathAbort('empty index range')
    p = ctx.choice_pos
    if p < len(ctx.choices):
        ent = ctx.choices[p]
        ent[1] = n
        if ent[2] >= n:
            ent[2] = 0
    else:
        ent = [name, n, 0]
        ctx.choices.append(ent)
    ctx.choice_pos += 1
    return ent[2]


def hint(*terms):
    pass


def Delta(shape, pos, amp, kind='f'):
    a = np.zeros(tuple(int(d) for d in shape), dtype='float64' if kind == 'f' else 'complex128')
    a[tuple(int(p) for p in pos)] = amp
    return a


class stub:
    """no-op in concrete mode: the real callee runs"""
    def __init__(self, module, name, spec):
        pass

    def __enter__(self):
        return self

    def __exit__(self, *a):
        return False


def assume(c):
    if not _truth(c):
        raise PathAbort('assumption false')


def _truth(c):
    if isinstance(c, np.ndarray):
        return bool(c.all())
    return bool(c)


def check(name, cond, safety=False):
    ctx.results.append((name, _truth(cond)))


def And(*cs):
    return all(_truth(c) for c in cs)


def Or(*cs):
    return any(_truth(c) for c in cs)


def Not(c):
    return not _truth(c)


def Implies(a, b):
    return (not _truth(a)) or _truth(b)


def ite(c, a, b):
    return a if _truth(c) else b


def did_raise(fn, *exc):
    exc = exc or (Exception,)
    try:
        fn()
    except (PathAbort, Unsupported, StopPath):
        raise
    except exc:
        return True
    return False


def approx(a, b, tol=None):
    tol = ctx.tol if tol is None else tol
    try:
        a_, b_ = complex(a), complex(b)
    except Exception:
        return bool(np.allclose(a, b, rtol=tol, atol=tol, equal_nan=True))
    if a_ != a_ or b_ != b_:
        return (a_ != a_) and (b_ != b_)
    return abs(a_ - b_) <= tol * max(1.0, abs(a_), abs(b_))


def eq(a, b):
    if isinstance(a, (float, complex, np.floating, np.complexfloating)) or isinstance(b, (float, complex, np.floating, np.complexfloating)):
        return approx(a, b)
    return a == b


def isarray(x):
    return isinstance(x, np.ndarray)


def shape_is(a, *dims):
    return tuple(np.shape(a)) == tuple(int(d) for d in dims)


def note(s):
    ctx.assumed.append(s)


def kind_of(a):
    d = np.asarray(a).dtype
    return (d.kind, None if d.kind == 'b' else d.itemsize * 8)


def cx(re, im=0):
    return complex(re, im)


def expi(theta):
    return complex(math.cos(theta), math.sin(theta))


def sqrt(x):
    return math.sqrt(x)


def cos(x):
    return math.cos(x)


def sin(x):
    return math.sin(x)


def floor(x):
    return math.floor(x)


def ceil(x):
    return math.ceil(x)


def sigma(n, f, lo=0):
    return sum(f(k) for k in range(lo, int(n)))


def sum_value(s):
    return s


def vary_layout(rng, a):
    """the same array VALUES in a memory layout drawn from: C order, Fortran order, a transposed view of a C array, a strided
    (non-contiguous) view.  Results of the code under contract must not depend on it."""
    a = np.asarray(a)
    if a.ndim == 0 or a.size == 0:
        return a
    k = int(rng.integers(0, 4))
    if k == 0:
        return np.ascontiguousarray(a)
    if k == 1:
        return np.asfortranarray(a)
    if k == 2 and a.ndim >= 2:
        return np.ascontiguousarray(a.T).T
    big = np.empty(tuple(2 * d for d in a.shape), dtype=a.dtype)
    view = big[tuple(slice(None, None, 2) for _ in a.shape)]
    view[...] = a
    return view


class TF(float):
    """a float read out of an array by a contract clause: `==` / `!=` on it mean equality up to rounding (ctx.tol, the same
    tolerance as approx), because clauses are written as exact real-arithmetic statements (A1) and replayed on binary floats;
    ordering comparisons stay exact.  Arithmetic keeps the wrapper."""
    __slots__ = ()

    def __eq__(self, o):
        if isinstance(o, (int, float, np.integer, np.floating)) and not isinstance(o, bool):
            return approx(float(self), float(o))
        return float.__eq__(self, o)

    def __ne__(self, o):
        r = self.__eq__(o)
        return r if r is NotImplemented else not r
    __hash__ = float.__hash__


def _tf_op(name):
    base = getattr(float, name)

    def op(self, *a):
        r = base(self, *[float(x) if isinstance(x, (TF, np.floating)) else x for x in a])
        return TF(r) if isinstance(r, float) else r
    op.__name__ = name
    return op


for _n in ('__add__', '__radd__', '__sub__', '__rsub__', '__mul__', '__rmul__', '__truediv__', '__rtruediv__', '__neg__', '__pos__',
           '__abs__', '__pow__', '__rpow__'):
    setattr(TF, _n, _tf_op(_n))


def elem(a, *i):
    if not i and not isinstance(a, np.ndarray):
        return a
    v = a[tuple(int(j) for j in i)]
    if isinstance(v, (np.floating, float)) and not isinstance(v, TF):
        return TF(v)
    return v


def abs2(z):
    return abs(z) ** 2


def smax(a, b):
    return max(a, b)


def smin(a, b):
    return min(a, b)


def lift(x):
    return x


def stop_path():
    raise StopPath()


def next_choices():
    """advance the odometer over enumerated skolem indices; False when exhausted"""
    ch = ctx.choices[:ctx.choice_pos]
    for k in range(len(ch) - 1, -1, -1):
        if ch[k][2] + 1 < ch[k][1]:
            ch[k][2] += 1
            for j in range(k + 1, len(ch)):
                ch[j][2] = 0
            ctx.choices = ch
            return True
    return False


def run_concrete(fn, variant, model=None, seed=0, max_runs=20000):
    """run harness fn(variant) concretely over all skolem choices; returns list of failures and count"""
    failures = []
    nruns = 0
    nchecks = 0
    ctx.begin(model, seed)
    choices = []
    while True:
        ctx.begin(model, seed, choices)
        try:
            fn(variant) if variant is not None else fn()
            status = 'ok'
        except PathAbort:
            status = 'abort'
        except StopPath:
            status = 'ok'
        except Unsupported as e:
            status = 'unsupported: %s' % e
        except Exception as e:   # exception from the real code under this input
            import traceback as _tb
            last = _tb.extract_tb(e.__traceback__)[-1]
            if isinstance(e, (KeyError, AttributeError)) and (os.sep + 'contracts' + os.sep) in last.filename:
                # the harness itself could not reach what it wanted to look at (an executor's private cache, an attribute): that is
                # a limit of the harness, not behaviour of the code under contract
                # (clauses evaluated BEFORE that point still count: they are collected below)
                status = 'unsupported: harness could not observe (%s: %s)' % (type(e).__name__, e)
            else:
                status = 'exception'
                failures.append({'check': 'no-exception', 'exception': '%s: %s' % (type(e).__name__, e),
                                 'drawn': dict(ctx.drawn), 'choices': [(c[0], c[2]) for c in ctx.choices[:ctx.choice_pos]]})
        nruns += 1
        for (name, ok) in ctx.results:
            nchecks += 1
            if not ok:
                failures.append({'check': name, 'drawn': dict(ctx.drawn),
                                 'choices': [(c[0], c[2]) for c in ctx.choices[:ctx.choice_pos]]})
        choices = ctx.choices
        if failures or status.startswith('unsupported: harness') or nruns >= max_runs or not next_choices():
            break
        choices = ctx.choices
    return failures, nruns, nchecks, status


class noise:
    """concrete twin of symbolic.noise: swaps np.random behind prysm.mathops' backend shim."""
    def __init__(self, kind):
        self.kind = kind
        self.shot = None
        self.read = None

    def __enter__(self):
        install()
        from prysm import mathops
        outer = self
        real = mathops._np

        class _R:
            def poisson(self_, lam=1.0, size=None):
                if outer.kind == 'free':
                    outer.shot = np.broadcast_to(np.asarray(lam, dtype=float), size).copy()
                else:
                    outer.shot = ctx.nrng.poisson(np.maximum(np.asarray(lam, dtype=float), 0), size)
                    key = 'shot.values'
                    if key in ctx.model and len(ctx.model[key]) == outer.shot.size:
                        outer.shot = np.array(ctx.model[key]).reshape(outer.shot.shape).astype(np.int64)
                return outer.shot

            def normal(self_, loc=0.0, scale=1.0, size=None):
                if outer.kind == 'free':
                    outer.read = np.zeros(size)
                else:
                    outer.read = ctx.nrng.normal(loc, scale if scale > 0 else 1.0, size)
                    key = 'read.values'
                    if key in ctx.model and len(ctx.model[key]) == outer.read.size:
                        outer.read = np.array(ctx.model[key], dtype=float).reshape(outer.read.shape)
                return outer.read

        class _Proxy:
            random = _R()

            def __getattr__(self_, k):
                return getattr(real, k)
        self._old = mathops.np._srcmodule
        mathops.np._srcmodule = _Proxy()
        return self

    def __exit__(self, *a):
        from prysm import mathops
        mathops.np._srcmodule = self._old
        return False


class no_div_safety:
    def __enter__(self):
        return self

    def __exit__(self, *a):
        return False


class cut_loops:
    """no-op in concrete mode: the real loops run"""
    def __init__(self, path, invs):
        self.path = path

    def __enter__(self):
        return get(self.path)

    def __exit__(self, *a):
        return False


class Invariant:
    pass


def seq_len(s):
    return len(s)


def seq_get(s, p):
    return s[int(p)]


def skolem(n, name='p'):
    return idx(n, '__sk_' + name)


class PredInvariant(Invariant):
    pass


class SpecFn:
    """concrete twin: evaluates the textbook definition by recursion (memoised)"""
    def __init__(self, name, nparams, cases):
        self.name, self.nparams, self.cases = name, nparams, cases
        self.memo = {}

    def at(self, n, *params):
        n = int(n)
        key = (n,) + tuple(float(p) if not isinstance(p, complex) else p for p in params)
        if key in self.memo:
            return self.memo[key]
        # iterative fill to avoid deep recursion
        todo = [n]
        while todo:
            k = todo[-1]
            kk = (k,) + key[1:]
            if kk in self.memo:
                todo.pop()
                continue
            need = [j for j in (k - 1, k - 2) if j >= 0 and ((j,) + key[1:]) not in self.memo and self._needs(k)]
            if need:
                todo.extend(need)
                continue
            for guard, value in self.cases:
                if guard(k):
                    self.memo[kk] = value(self, k, *params)
                    break
            else:
                raise ValueError('spec %s undefined at %r' % (self.name, k))
            todo.pop()
        return self.memo[key]

    def _needs(self, k):
        return k >= 2

    raw = at


def use_lemma(name, cond):
    pass


def AscendingInts(name, lo=0):
    L = Int(name + '.len', 1)
    vals = ctx.model.get(name + '.values')
    if vals is not None and len(vals) == L and all(b > a for a, b in zip(vals, vals[1:])) and vals[0] >= lo:
        ns = [int(v) for v in vals]
    else:
        cur = lo + ctx.rng.randint(0, 3)
        ns = []
        for _ in range(L):
            ns.append(cur)
            cur += ctx.rng.randint(1, 3)
    ctx.drawn[name + '.values'] = list(ns)
    return ns, L
