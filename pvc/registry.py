"""registry of proof harnesses (contract + call of the real function) per property."""
HARNESSES = {}


class H:
    def __init__(self, prop, name, fn, variants, fuc, kind, doc, tiers, seeds=None):
        self.prop, self.name, self.fn, self.variants = prop, name, fn, variants
        self.fuc, self.kind, self.doc, self.tiers = fuc, kind, doc, tiers
        self.seeds = seeds

    @property
    def key(self):
        return '%s:%s' % (self.prop, self.name)


def harness(prop, name, variants=None, fuc=(), kind='proof', tiers=('quick', 'thorough'), seeds=None):
    """kind: 'proof' (symbolic VCs, unbounded) | 'bounded' (concrete sweep of the same contract, stated box)
    | 'lemma' (pure obligation over spec functions, no repository code called)."""
    def deco(fn):
        h = H(prop, name, fn, list(variants) if variants is not None else [None], tuple(fuc), kind,
              (fn.__doc__ or '').strip(), tiers, seeds)
        HARNESSES[h.key] = h
        return fn
    return deco


def lemma(prop, name, variants=None):
    return harness(prop, name, variants=variants, kind='lemma')
