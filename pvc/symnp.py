"""Library model (DESIGN 1.5): the numpy / scipy.fft / math / builtins surface that prysm
functions reach, re-implemented over symbolic arrays.  Every function here is an *assumed
contract* on the dependency; names actually reached during a run are logged in
ctx.axiom_log and end up in the evidence file's trusted_base.
"""
import builtins
import fractions
import itertools
import math as _math
import types

import numpy as _np
import z3

from . import symcore as sc
from .symcore import (Sc, SInt, SReal, SBool, SNum, Cx, ctx, lift, ite, Unsupported, is_scalar_like,
                      smax, smin, fresh_int, fresh_real, tobool, _site)
from .symarr import (SArr, DT, as_dt, bshape, _bidx, cdim, Sigma, shapes_equal, promote, cast_scalar, where,
                     dim_eq, dim_is, _cast_in, result_dt, scalar_dt, slice_indices)


def _log(name):
    ctx.axiom_log.add('lib:' + name)


def is_sym(x):
    """does x contain anything symbolic"""
    if isinstance(x, (Sc, Cx, SArr, Sigma)):
        return True
    if isinstance(x, (list, tuple)):
        return any(is_sym(e) for e in x)
    return False


newaxis = None
pi = SReal(sc.PI)
inf = float('inf')
nan = float('nan')
e = _math.e

float32 = DT('f', 32)
float64 = DT('f', 64)
complex64 = DT('c', 64)
complex128 = DT('c', 128)
int8, int16, int32, int64 = DT('i', 8), DT('i', 16), DT('i', 32), DT('i', 64)
uint8, uint16, uint32, uint64 = DT('u', 8), DT('u', 16), DT('u', 32), DT('u', 64)
bool_ = DT('b')
ndarray = SArr
integer = (int, SInt)
floating = (float, SReal)
number = (int, float, SNum)


def dtype(x):
    return as_dt(x)


class _ErrState:
    def __init__(self, **kw): pass
    def __enter__(self): return self
    def __exit__(self, *a): return False


errstate = _ErrState


def isscalar(x):
    return isinstance(x, (int, float, complex, Sc, Cx)) and not isinstance(x, SArr)


def iscomplexobj(x):
    if isinstance(x, SArr):
        return x.dtype.kind == 'c'
    if isinstance(x, DT):
        return False   # numpy: iscomplexobj(dtype instance) is False
    return isinstance(x, (complex, Cx))


def isrealobj(x):
    return not iscomplexobj(x)


def const_array(a):
    """concrete numpy array -> SArr (symbolic index lookup by ite chain)."""
    a = _np.asarray(a)
    if a.dtype.kind == 'O':
        raise Unsupported('object array')
    dt = as_dt(a.dtype)
    shape = a.shape

    def fn(idx, a=a):
        if all(isinstance(i, int) for i in idx):
            return _pyval(a[idx])
        # symbolic index: ite chain over all positions (small arrays only)
        if a.size > 4096:
            raise Unsupported('symbolic index into large concrete array')
        res = None
        for pos in itertools.product(*[range(d) for d in a.shape]):
            v = _pyval(a[pos])
            if res is None:
                res = v
            else:
                c = sc.And(*[lift(i) == p for i, p in zip(idx, pos)])
                res = ite(c, v, res)
        return res
    return SArr(shape, fn, dt)


def _pyval(v):
    if isinstance(v, _np.generic):
        v = v.item()
    if isinstance(v, complex):
        return Cx.lift(v)
    return v


def _live(x, dtype=None):
    if isinstance(x, SArr):
        if dtype is not None and as_dt(dtype) != x.dtype:
            return x.astype(dtype)
        return x
    if isinstance(x, (Sc, Cx, int, float, complex, Sigma)):
        dt = as_dt(dtype) if dtype is not None else scalar_dt(x)[0] if not isinstance(x, Sigma) else DT('c', 128)
        return SArr((), lambda idx, x=x: _cast_in(x, dt), dt)
    if isinstance(x, _np.ndarray):
        r = const_array(x)
        return r if dtype is None else r.astype(dtype)
    if isinstance(x, (list, tuple)):
        if not is_sym(x):
            r = const_array(_np.asarray(x))
            return r if dtype is None else r.astype(dtype)
        elems = [asarray(e) for e in x]
        return stack(elems, axis=0) if dtype is None else stack(elems, axis=0).astype(dtype)
    if isinstance(x, (range,)):
        return const_array(_np.asarray(x))
    if hasattr(x, '__iter__'):
        return asarray(list(x), dtype)
    raise Unsupported('asarray of %r' % type(x))


def asarray(x, dtype=None):
    """SArr inputs are frozen (snapshot of current contents): arrays derived from them must not see
    later in-place updates of the operand.  View-producing functions use _live instead."""
    r = _live(x, dtype)
    if r is x and isinstance(x, SArr):
        f = SArr(x.shape, x._snapshot(), x.dtype)
        if getattr(x, '_delta', None) is not None:
            f._delta = x._delta
        return f
    return r


def array(x, dtype=None, copy=True):
    return asarray(x, dtype)


asanyarray = asarray
ascontiguousarray = asarray


def _shape(shape):
    if isinstance(shape, (int, SInt)) or (hasattr(shape, 'dtype') and getattr(shape, 'ndim', 1) == 0):
        shape = (shape,)
    out = []
    for d in shape:
        if isinstance(d, (float, SReal)):
            raise TypeError("'float' object cannot be interpreted as an integer")
        d = cdim(d)
        if isinstance(d, int):
            if d < 0:
                raise ValueError('negative dimensions are not allowed')
        else:
            if bool(d < 0):
                raise ValueError('negative dimensions are not allowed')
        out.append(d)
    return tuple(out)


def full(shape, fill_value, dtype=None):
    dt = as_dt(dtype) if dtype is not None else scalar_dt(fill_value)[0]
    v = _cast_in(fill_value, dt)
    return SArr(_shape(shape), lambda idx: v, dt)


def zeros(shape, dtype=None):
    return full(shape, 0, dtype if dtype is not None else float64)


def ones(shape, dtype=None):
    return full(shape, 1, dtype if dtype is not None else float64)


def empty(shape, dtype=None):
    """np.empty: contents arbitrary (havoc)."""
    dt = as_dt(dtype)
    shp = _shape(shape)
    nm = ctx.fresh_name('empty')
    return sym_array(nm, shp, dt, register=False)


def zeros_like(a, dtype=None):
    a = asarray(a)
    return zeros(a.shape, dtype or a.dtype)


def ones_like(a, dtype=None):
    a = asarray(a)
    return ones(a.shape, dtype or a.dtype)


def empty_like(a, dtype=None):
    a = asarray(a)
    return empty(a.shape, dtype or a.dtype)


def full_like(a, v, dtype=None):
    a = asarray(a)
    return full(a.shape, v, dtype or a.dtype)


def sym_array(name, shape, dt, register=True):
    """fresh array with uninterpreted elements."""
    dt = as_dt(dt)
    nd = len(shape)
    sorts = [z3.IntSort()] * nd
    if dt.kind == 'c':
        fr = z3.Function(name + '.re', *sorts, z3.RealSort())
        fi = z3.Function(name + '.im', *sorts, z3.RealSort())
        fns = [fr, fi]

        def fn(idx):
            ii = [sc._zint(i) for i in idx]
            return Cx([(fr(*ii) if nd else fr(), fi(*ii) if nd else fi(), None)])
    else:
        rs = {'f': z3.RealSort(), 'i': z3.IntSort(), 'u': z3.IntSort(), 'b': z3.BoolSort()}[dt.kind]
        if nd == 0:
            c = z3.Const(name, rs)
            f = lambda *a: c
        else:
            f = z3.Function(name, *sorts, rs)
        fns = [f]
        cls = {'f': SReal, 'i': SInt, 'u': SInt, 'b': SBool}[dt.kind]

        def fn(idx):
            v = cls(f(*[sc._zint(i) for i in idx]))
            return v
    a = SArr(shape, fn, dt, name=name)
    if register:
        ctx.inputs[name] = ('array', list(shape), fns, dt.kind)
    return a


def arange(*args, dtype=None):
    _log('arange')
    if len(args) == 1:
        start, stop, step = 0, args[0], 1
    elif len(args) == 2:
        start, stop, step = args[0], args[1], 1
    else:
        start, stop, step = args
    if not is_sym((start, stop, step)):
        return const_array(_np.arange(start, stop, step, dtype=_npdt(dtype)))
    isint = all(isinstance(v, (int, SInt)) for v in (start, stop, step))
    if dtype is None:
        dt = DT('i', 64) if isint else DT('f', 64)
    else:
        dt = as_dt(dtype)
    if isint:
        if isinstance(step, int) and step == 1:
            n = smax(lift(stop) - lift(start), 0)
        else:
            if not isinstance(step, int) or step <= 0:
                raise Unsupported('arange with symbolic/negative step')
            n = smax((lift(stop) - lift(start) + (step - 1)) // step, 0)
    else:
        n = smax(sc.sceil((lift(stop) - lift(start)) / step), 0)
    return SArr((n,), lambda idx: _cast_in(start + idx[0] * step, dt), dt)


def _npdt(dtype):
    if dtype is None:
        return None
    if isinstance(dtype, DT):
        return _np.dtype(dtype.name)
    return dtype


def linspace(start, stop, num=50, endpoint=True, dtype=None):
    _log('linspace')
    if not is_sym((start, stop, num)):
        return const_array(_np.linspace(start, stop, num, endpoint=endpoint))
    dt = as_dt(dtype) if dtype is not None else DT('f', 64)
    div = (num - 1) if endpoint else num
    n = cdim(num)
    return SArr((n,), lambda idx: _cast_in(start + (stop - start) * idx[0] / div, dt), dt)


# ------------------------------------------------------------------ elementwise
def _map(f, x, out_dt=None, name=None):
    if name:
        _log(name)
    if isinstance(x, _np.ndarray):
        x = const_array(x)
    if isinstance(x, (list, tuple)):
        x = asarray(x)
    if isinstance(x, SArr):
        dt = out_dt(x.dtype) if callable(out_dt) else (out_dt or x.dtype)
        return SArr(x.shape, lambda idx: f(x.at(*idx)), dt)
    return f(x)


def _fdt(dt):
    if dt.kind in 'biu':
        return DT('f', 64)
    return dt


def _exp1(v):
    if isinstance(v, (Cx, complex)):
        return sc.cexp(v)
    if isinstance(v, Sigma):
        raise Unsupported('exp of a sum')
    return sc.sexp(v)


def exp(x): return _map(_exp1, x, _fdt, 'exp')
def log(x): return _map(lambda v: sc.slog(v), x, _fdt, 'log')
def _realarg(v, name):
    """transcendental of a complex value is modelled only when its imaginary part is identically zero"""
    if isinstance(v, (Cx, complex)):
        v = Cx.lift(v)
        if not v.terms:
            return 0
        if len(v.terms) == 1 and v.terms[0][2] is None:
            im = z3.simplify(v.terms[0][1])
            if z3.is_rational_value(im) and im.as_fraction() == 0:
                return SReal(v.terms[0][0])
            if sc.entails(im == 0):
                return SReal(v.terms[0][0])
        raise Unsupported('%s of a complex value with non-zero imaginary part' % name)
    return v


def cos(x): return _map(lambda v: sc.scos(_realarg(v, 'cos')), x, _fdt, 'cos')
def sin(x): return _map(lambda v: sc.ssin(_realarg(v, 'sin')), x, _fdt, 'sin')
def arcsin(x): return _map(lambda v: sc.sarcsin(_realarg(v, 'arcsin')), x, _fdt, 'arcsin')
def degrees(x): return x * 180 / pi
def radians(x): return x * pi / 180
rad2deg = degrees
deg2rad = radians


class _SciMath:
    @staticmethod
    def arcsin(x):
        """scimath.arcsin: real branch only (|x| <= 1 is a safety obligation of the caller's contract)"""
        _log('lib.scimath.arcsin (real branch)')
        return arcsin(x)

    @staticmethod
    def sqrt(x):
        return sqrt(x)


class _Lib:
    scimath = _SciMath()


lib = _Lib()
def tan(x): return _map(lambda v: sc.ssin(v) / sc.scos(v), x, _fdt, 'tan')
def tanh(x): return _map(lambda v: sc.stanh(v), x, _fdt, 'tanh')
def arctan(x): return _map(lambda v: sc.sarctan(v), x, _fdt, 'arctan')


def _sqrt1(v):
    if isinstance(v, (Cx, complex)):
        raise Unsupported('complex sqrt')
    return sc.ssqrt(v)


def sqrt(x): return _map(_sqrt1, x, _fdt, 'sqrt')


def _abs1(v):
    return builtins.abs(v)


def absolute(x):
    return _map(_abs1, x, lambda dt: DT('f', dt.bits // 2) if dt.kind == 'c' else dt)


abs = absolute


def conj(x):
    return _map(lambda v: v.conj() if hasattr(v, 'conj') else v, x)


conjugate = conj


def real(x):
    if isinstance(x, SArr):
        return x.real
    return x.real if hasattr(x, 'real') else x


def imag(x):
    if isinstance(x, SArr):
        return x.imag
    return x.imag if hasattr(x, 'imag') else 0


def angle(x):
    _log('angle=arctan2(im,re)')
    return _map(lambda v: sc.sarctan2(Cx.lift(v).im, Cx.lift(v).re), x,
                lambda dt: DT('f', dt.bits // 2) if dt.kind == 'c' else DT('f', 64))


def floor(x): return _map(lambda v: SReal(sc._toreal(sc.sfloor(v).z)), x, _fdt, 'floor')
def ceil(x): return _map(lambda v: SReal(sc._toreal(sc.sceil(v).z)), x, _fdt, 'ceil')
def trunc(x): return _map(lambda v: SReal(sc._toreal(sc.strunc(v).z)), x, _fdt, 'trunc')
def around(x, decimals=0): return _map(lambda v: SReal(sc._toreal(sc.round_half_even(lift(v)).z)) if not isinstance(lift(v), SInt) else v, x, None, 'around(half-even)')
round = around
round_ = around
rint = around


def sign(x):
    return _map(lambda v: ite(lift(v) > 0, 1, ite(lift(v) < 0, -1, 0)) * (lift(v) * 0 + 1), x)


def copysign(a, b):
    # |a| with the sign of b; over the reals b = 0 counts as +0 (A1: there is no -0.0 in the model)
    # the sign test forks the path (one polynomial problem per sign instead of an if-then-else term)
    def one(m, s):
        m, s = lift(m), lift(s)
        pos = bool(m >= 0)
        same = bool(s >= 0) == pos
        return m if same else -m
    return _binary(one, a, b)


def square(x): return _map(lambda v: v * v, x)
def negative(x): return -x
def isfinite(x): return _map(lambda v: SBool(z3.BoolVal(True)), x, DT('b'), 'isfinite(A1: symbolic reals are finite)')
def isnan(x): return _map(lambda v: SBool(z3.BoolVal(False)), x, DT('b'), 'isnan(A1)')
def logical_not(x): return _map(lambda v: ~v if isinstance(v, SBool) else (not v), x, DT('b'))
def logical_and(a, b): return asarray(a) & asarray(b) if isinstance(a, SArr) or isinstance(b, SArr) else sc.And(a, b)
def logical_or(a, b): return asarray(a) | asarray(b) if isinstance(a, SArr) or isinstance(b, SArr) else sc.Or(a, b)


def _binary(f, a, b, dtf=None):
    if isinstance(a, (_np.ndarray, list, tuple)):
        a = asarray(a)
    if isinstance(b, (_np.ndarray, list, tuple)):
        b = asarray(b)
    if isinstance(a, SArr) or isinstance(b, SArr):
        aa, bb = asarray(a), asarray(b)
        shp = bshape(aa.shape, bb.shape)
        nd = len(shp)
        dt = dtf(aa.dtype, bb.dtype) if dtf else promote(aa.dtype, bb.dtype)
        return SArr(shp, lambda idx: f(aa.at(*_bidx(aa.shape, idx, nd)), bb.at(*_bidx(bb.shape, idx, nd))), dt)
    return f(a, b)


def maximum(a, b): return _binary(lambda x, y: smax(x, y), a, b)
def minimum(a, b): return _binary(lambda x, y: smin(x, y), a, b)
def hypot(a, b):
    _log('hypot')
    return _binary(lambda x, y: sc.ssqrt(x * x + y * y), a, b, lambda p, q: _fdt(promote(p, q)))
def arctan2(a, b):
    return _binary(lambda y, x: sc.sarctan2(y, x), a, b, lambda p, q: _fdt(promote(p, q)))
def multiply(a, b): return a * b
def add(a, b): return a + b
def subtract(a, b): return a - b
def divide(a, b): return a / b
def power(a, b): return a ** b
def mod(a, b): return a % b
def floor_divide(a, b): return a // b


def clip(a, lo=None, hi=None, out=None, **kw):
    _log('clip')
    if kw:
        raise Unsupported('clip(%s=...)' % ', '.join(kw))
    def f(v):
        if lo is not None:
            v = smax(v, lo)
        if hi is not None:
            v = smin(v, hi)
        return v
    res = _map(f, a)
    if out is not None:
        if not isinstance(out, SArr):
            raise Unsupported('clip(out=) into a non-symbolic array')
        snap = out._snapshot() if out is a else None          # in-place: read the old elements, not the ones being written
        if snap is not None:
            res = SArr(out.shape, lambda idx, snap=snap: f(snap(idx)), out.dtype)
        out[...] = res
        return out
    return res


# ------------------------------------------------------------------- structure
def outer(a, b):
    _log('outer')
    a, b = asarray(a).ravel() if asarray(a).ndim != 1 else asarray(a), asarray(b)
    if b.ndim != 1:
        b = b.ravel()
    dt = promote(a.dtype, b.dtype)
    return SArr((a.shape[0], b.shape[0]), lambda idx: a.at(idx[0]) * b.at(idx[1]), dt)


def _factors(d):
    """atomic multiplicative factors of a dimension (ints > 1 and symbolic atoms)"""
    if isinstance(d, int):
        return _prime_factors(d)
    z = z3.simplify(d.z)
    if z3.is_int_value(z):
        return _prime_factors(z.as_long())
    if z3.is_app(z) and z.decl().kind() == z3.Z3_OP_MUL:
        out = []
        for c in z.children():
            out += _factors(SInt(c))
        return out
    return [SInt(z)]


def _prime_factors(v):
    if v <= 1:
        return [] if v == 1 else [v]
    out = []
    p = 2
    while p * p <= v and len(out) < 40:
        while v % p == 0:
            out.append(p)
            v //= p
        p += 1
    if v > 1:
        out.append(v)
    return out


def _same_factor(x, y):
    if isinstance(x, int) or isinstance(y, int):
        return isinstance(x, int) and isinstance(y, int) and x == y
    return x.z.eq(y.z)


def _prod(fs):
    r = 1
    for f in fs:
        r = r * f
    return r


def split_index(i, w):
    """(hi, lo) with i = hi*w + lo and 0 <= lo < w.  Pattern-matches i = x*w + y when the path
    condition entails 0 <= y < w; otherwise quotient-remainder variables."""
    if isinstance(i, int) and isinstance(w, int):
        return i // w, i % w
    iz = z3.simplify(lift(i).z)
    wz = z3.simplify(lift(w).z)
    cand = None
    if z3.is_app(iz) and iz.decl().kind() == z3.Z3_OP_ADD:
        terms = iz.children()
    else:
        terms = [iz]
    his, los = [], []
    for t in terms:
        x = _div_exact(t, wz)
        if x is not None:
            his.append(x)
        else:
            los.append(t)
    if his:
        lo = z3.simplify(z3.Sum(*los)) if los else z3.IntVal(0)
        hi = z3.simplify(z3.Sum(*his)) if len(his) > 1 else his[0]
        if not ctx.feasible(z3.Or(lo < 0, lo >= wz)):
            return cdim(SInt(hi)), cdim(SInt(lo))
    q = lift(i) // w
    r = lift(i) - q * w
    return q, r


def _div_exact(t, wz):
    """if term t is syntactically x*w return x else None"""
    if t.eq(wz):
        return z3.IntVal(1)
    if z3.is_app(t) and t.decl().kind() == z3.Z3_OP_MUL:
        ch = list(t.children())
        wf = [c for c in (wz.children() if (z3.is_app(wz) and wz.decl().kind() == z3.Z3_OP_MUL) else [wz])]
        rest = list(ch)
        for f in wf:
            for k, c in enumerate(rest):
                if c.eq(f):
                    rest.pop(k)
                    break
            else:
                # integer constant factor: allow constant multiples
                if z3.is_int_value(f):
                    for k, c in enumerate(rest):
                        if z3.is_int_value(c) and f.as_long() != 0 and c.as_long() % f.as_long() == 0:
                            rest[k] = z3.IntVal(c.as_long() // f.as_long())
                            break
                    else:
                        return None
                else:
                    return None
        if not rest:
            return z3.IntVal(1)
        return z3.simplify(z3.Product(*rest)) if len(rest) > 1 else rest[0]
    if z3.is_int_value(t) and z3.is_int_value(wz) and wz.as_long() != 0 and t.as_long() % wz.as_long() == 0:
        return z3.IntVal(t.as_long() // wz.as_long())
    return None


def _structural_reshape(oshape, shape):
    """common refinement of two shapes into one sequence of atomic factors; None if impossible."""
    fo = [_factors(d) for d in oshape]
    fn = [_factors(d) for d in shape]
    seq = []          # atomic factors in C order
    grp_o = [[] for _ in oshape]   # positions in seq per old dim
    grp_n = [[] for _ in shape]
    io, in_ = 0, 0
    ro, rn = (list(fo[0]) if fo else []), (list(fn[0]) if fn else [])
    while True:
        while io < len(fo) and not ro:
            io += 1
            ro = list(fo[io]) if io < len(fo) else []
        while in_ < len(fn) and not rn:
            in_ += 1
            rn = list(fn[in_]) if in_ < len(fn) else []
        if io >= len(fo) or in_ >= len(fn):
            break
        hit = None
        for a_, x in enumerate(ro):
            for b_, y in enumerate(rn):
                if _same_factor(x, y):
                    hit = (a_, b_)
                    break
            if hit:
                break
        if hit is None:
            return None
        x = ro.pop(hit[0])
        rn.pop(hit[1])
        grp_o[io].append(len(seq))
        grp_n[in_].append(len(seq))
        seq.append(x)
    if io < len(fo) or in_ < len(fn):
        return None
    return seq, grp_o, grp_n


def reshape(a, shape, order='C'):
    _log('reshape(C order)')
    a = _live(a)
    if isinstance(shape, (int, SInt)):
        shape = (shape,)
    shape = list(shape)
    # resolve -1
    if any(isinstance(d, int) and d == -1 for d in shape):
        k = next(i for i, d in enumerate(shape) if isinstance(d, int) and d == -1)
        known = 1
        for i, d in enumerate(shape):
            if i != k:
                known = known * d
        tot = a.size
        if isinstance(tot, int) and isinstance(known, int):
            if known == 0 or tot % known:
                raise ValueError('cannot reshape array of size %s into shape %s' % (tot, shape))
            shape[k] = tot // known
        else:
            q = lift(tot) // known
            if bool(q * known != tot):
                raise ValueError('cannot reshape')
            shape[k] = q
    shape = tuple(cdim(d) for d in shape)
    oshape = a.shape
    st = _structural_reshape(oshape, shape)
    if st is not None:
        seq, grp_o, grp_n = st

        def imap(oidx, seq=seq, grp_o=grp_o, grp_n=grp_n):
            digits = [None] * len(seq)
            for k, g in enumerate(grp_n):
                i = oidx[k]
                for pos, s_ in enumerate(g):
                    rest = [seq[t] for t in g[pos + 1:]]
                    if not rest:
                        digits[s_] = i
                    else:
                        hi, lo = split_index(i, _prod(rest))
                        digits[s_] = hi
                        i = lo
            res = []
            for k, g in enumerate(grp_o):
                v = 0
                for s_ in g:
                    v = v * seq[s_] + digits[s_]
                res.append(v)
            return tuple(res)
        return SArr(shape, None, a.dtype, base=(a, imap))
    newsize = 1
    for d in shape:
        newsize = newsize * d
    if isinstance(newsize, int) and isinstance(a.size, int):
        if newsize != a.size:
            raise ValueError('cannot reshape array of size %d into shape %s' % (a.size, shape))
    else:
        if not bool(lift(newsize) == lift(a.size)):
            raise ValueError('cannot reshape array of size %s into shape %s' % (a.size, shape))

    def imap(oidx, shape=shape, oshape=oshape):
        # linear index then unravel (quotient-remainder on symbolic extents)
        lin = 0
        for i, d in zip(oidx, shape):
            lin = lin * d + i
        res = []
        rem = lin
        for k in range(len(oshape) - 1, -1, -1):
            d = oshape[k]
            if k == 0:
                res.append(rem)
            else:
                if isinstance(d, int) and d == 1:
                    res.append(0)
                else:
                    hi, lo = split_index(rem, d)
                    res.append(lo)
                    rem = hi
        return tuple(reversed(res))
    return SArr(shape, None, a.dtype, base=(a, imap))


def ravel(a):
    return _live(a).ravel()


def transpose(a, axes=None):
    return _live(a).transpose(axes) if axes is not None else _live(a).T


def swapaxes(a, i, j):
    return _live(a).swapaxes(i, j)


def moveaxis(a, src, dst):
    _log('moveaxis')
    a = _live(a)
    nd = a.ndim
    src = [src] if isinstance(src, int) else list(src)
    dst = [dst] if isinstance(dst, int) else list(dst)
    src = [s % nd for s in src]
    dst = [d % nd for d in dst]
    order = [n for n in range(nd) if n not in src]
    for d, s in sorted(zip(dst, src)):
        order.insert(d, s)
    return a.transpose(order)


def atleast_1d(*arys):
    res = []
    for a in arys:
        a = _live(a)
        res.append(a if a.ndim >= 1 else reshape(a, (1,)))
    return res[0] if len(res) == 1 else res


def atleast_2d(*arys):
    res = []
    for a in arys:
        a = _live(a)
        if a.ndim == 0:
            a = reshape(a, (1, 1))
        elif a.ndim == 1:
            a = a[None, :]
        res.append(a)
    return res[0] if len(res) == 1 else res


def expand_dims(a, axis):
    a = _live(a)
    axes = tuple(axis) if isinstance(axis, (tuple, list)) else (axis,)
    nd = a.ndim + len(axes)
    axes = sorted(ax if ax >= 0 else nd + ax for ax in axes)
    key = []
    src = 0
    for k in range(nd):
        if k in axes:
            key.append(None)
        else:
            key.append(slice(None))
            src += 1
    return a[tuple(key)]


def shape(a):
    return tuple(asarray(a).shape) if not isinstance(a, (int, float, complex)) and not is_scalar_like(a) else ()


def ndim(a):
    return len(shape(a))


def squeeze(a, axis=None):
    return _live(a).squeeze()


def broadcast_to(a, shape):
    _log('broadcast_to')
    a = asarray(a)
    shape = _shape(shape)
    full = bshape(a.shape, shape)
    if not shapes_equal(full, shape):
        raise ValueError('cannot broadcast')
    nd = len(shape)
    return SArr(shape, lambda idx: a.at(*_bidx(a.shape, idx, nd)), a.dtype)


def broadcast_arrays(*arrs):
    arrs = [asarray(a) for a in arrs]
    shp = bshape(*[a.shape for a in arrs])
    return [broadcast_to(a, shp) for a in arrs]


def stack(arrays, axis=0):
    _log('stack')
    arrays = [asarray(a) for a in arrays]
    if not arrays:
        raise ValueError('need at least one array to stack')
    s0 = arrays[0].shape
    for a in arrays[1:]:
        if not shapes_equal(a.shape, s0):
            raise ValueError('all input arrays must have the same shape')
    n = len(arrays)
    nd = len(s0) + 1
    axis = axis % nd
    shape = s0[:axis] + (n,) + s0[axis:]
    dt = arrays[0].dtype
    for a in arrays[1:]:
        dt = promote(dt, a.dtype)

    def fn(idx, arrays=arrays, axis=axis):
        k = idx[axis]
        rest = idx[:axis] + idx[axis + 1:]
        if isinstance(k, int):
            return _cast_in(arrays[k].at(*rest), dt)
        res = arrays[-1].at(*rest)
        for j in range(len(arrays) - 2, -1, -1):
            res = ite(lift(k) == j, arrays[j].at(*rest), res)
        return _cast_in(res, dt)
    return SArr(shape, fn, dt)


def concatenate(arrays, axis=0):
    _log('concatenate')
    arrays = [asarray(a) for a in arrays]
    nd = arrays[0].ndim
    axis = axis % nd
    offs = [0]
    for a in arrays:
        offs.append(offs[-1] + a.shape[axis])
    shape = list(arrays[0].shape)
    shape[axis] = offs[-1]
    dt = arrays[0].dtype
    for a in arrays[1:]:
        dt = promote(dt, a.dtype)

    def fn(idx):
        k = idx[axis]
        res = None
        for j in range(len(arrays) - 1, -1, -1):
            sub = idx[:axis] + (k - offs[j],) + idx[axis + 1:]
            v = arrays[j].at(*sub)
            res = v if res is None else ite(lift(k) < offs[j + 1], v, res)
        return _cast_in(res, dt)
    return SArr(tuple(shape), fn, dt)


def hstack(arrays):
    arrays = [asarray(a) for a in arrays]
    return concatenate(arrays, axis=0 if arrays[0].ndim == 1 else 1)


def vstack(arrays):
    arrays = [asarray(a) if asarray(a).ndim > 1 else asarray(a)[None, :] for a in arrays]
    return concatenate(arrays, axis=0)


def _flip(a, axis):
    a = _live(a)
    key = [slice(None)] * a.ndim
    key[axis] = slice(None, None, -1)
    return a[tuple(key)]


def flipud(a): return _flip(a, 0)
def fliplr(a): return _flip(a, 1)
def flip(a, axis=None):
    a = _live(a)
    if axis is None:
        for k in range(a.ndim):
            a = _flip(a, k)
        return a
    return _flip(a, axis)


def roll(a, shift, axis=None):
    _log('roll(index map mod n)')
    a = asarray(a)
    if axis is None:
        raise Unsupported('roll without axis')
    if isinstance(axis, int):
        axis, shift = (axis,), (shift,)
    res = a
    for ax, sh in zip(axis, shift):
        res = _roll1(res, sh, ax % a.ndim)
    return res


def _roll1(a, sh, ax):
    n = a.shape[ax]

    def fn(idx, a=a, sh=sh, ax=ax, n=n):
        i = idx[ax]
        if isinstance(n, int) and isinstance(sh, int) and isinstance(i, int):
            j = (i - sh) % n
        else:
            j = (lift(i) - sh) % n
        return a.at(*(idx[:ax] + (j,) + idx[ax + 1:]))
    return SArr(a.shape, fn, a.dtype)


def meshgrid(*xi, indexing='xy', sparse=False):
    _log('meshgrid')
    xs = [asarray(x) for x in xi]
    if len(xs) != 2:
        raise Unsupported('meshgrid of %d arrays' % len(xs))
    x, y = xs
    if indexing == 'xy':
        shp = (y.shape[0], x.shape[0])
        xx = SArr(shp, lambda idx: x.at(idx[1]), x.dtype)
        yy = SArr(shp, lambda idx: y.at(idx[0]), y.dtype)
    else:
        shp = (x.shape[0], y.shape[0])
        xx = SArr(shp, lambda idx: x.at(idx[0]), x.dtype)
        yy = SArr(shp, lambda idx: y.at(idx[1]), y.dtype)
    return [xx, yy]


def pad(a, pad_width, mode='constant', constant_values=0, **kw):
    _log('pad(mode=%s)' % mode)
    a = asarray(a)
    if isinstance(pad_width, (int, SInt)):
        pad_width = [(pad_width, pad_width)] * a.ndim
    pw = [tuple(p) if isinstance(p, (tuple, list)) else (p, p) for p in pad_width]
    if len(pw) != a.ndim:
        raise ValueError('pad_width does not match array rank')
    for (b, e_) in pw:
        for v in (b, e_):
            if isinstance(v, int):
                if v < 0:
                    raise ValueError("index can't contain negative values")
            elif bool(lift(v) < 0):
                raise ValueError("index can't contain negative values")
    shape = tuple(cdim(b + d + e_) for (b, e_), d in zip(pw, a.shape))

    def fn(idx):
        inside = []
        src = []
        for k, ((b, e_), d) in enumerate(zip(pw, a.shape)):
            j = idx[k] - b
            inside.append(sc.And(lift(j) >= 0, lift(j) < d))
            if mode == 'constant':
                src.append(j)
            elif mode == 'edge':
                src.append(smax(smin(j, d - 1), 0))
            elif mode == 'wrap':
                src.append(lift(j) % d)
            elif mode in ('reflect', 'symmetric'):
                raise Unsupported('pad mode %s' % mode)
            else:
                raise ValueError('mode %r is not supported' % mode)
        if mode == 'constant':
            return ite(sc.And(*inside), a.at(*src), _cast_in(constant_values, a.dtype))
        return a.at(*src)
    return SArr(shape, fn, a.dtype)


def isin(a, vals):
    _log('isin')
    vals = list(vals) if not isinstance(vals, SArr) else [vals.at(i) for i in range(len(vals))]
    return _map(lambda v: sc.Or(*[lift(v) == w for w in vals]), a, DT('b'))


# -------------------------------------------------------------------- reductions
def _axes(a, axis):
    if axis is None:
        return tuple(range(a.ndim))
    if isinstance(axis, int):
        axis = (axis,)
    return tuple(ax % a.ndim for ax in axis)


def sum(a, axis=None, dtype=None, keepdims=False, out=None):
    _log('sum -> Sigma-term')
    if isinstance(a, (list, tuple)) and not any(isinstance(x, SArr) for x in a):
        return builtins.sum(a)
    a = asarray(a)
    axes = _axes(a, axis)
    # concrete extents on all reduced axes: expand
    red = [a.shape[k] for k in axes]
    keep = [k for k in range(a.ndim) if k not in axes]
    oshape = tuple(a.shape[k] if k in keep else 1 for k in range(a.ndim)) if keepdims else tuple(a.shape[k] for k in keep)
    dt = a.dtype if a.dtype.kind != 'b' else DT('i', 64)

    def fn(oidx):
        base = [None] * a.ndim
        if keepdims:
            for k in keep:
                base[k] = oidx[k]
        else:
            for o, k in enumerate(keep):
                base[k] = oidx[o]
        return _reduce_sum(a, axes, base)
    if not oshape:
        return fn(())
    return SArr(oshape, fn, dt)


def _reduce_sum(a, axes, base):
    if not axes:
        v = a.at(*base)
        return v.asint() if isinstance(v, SBool) else v
    ax = axes[0]
    n = a.shape[ax]
    if isinstance(n, int) and n <= 64:
        acc = 0
        for i in range(n):
            b2 = list(base)
            b2[ax] = i
            acc = acc + _reduce_sum(a, axes[1:], b2)
        return acc

    def body(v):
        b2 = list(base)
        b2[ax] = v
        return _reduce_sum(a, axes[1:], b2)
    return Sigma.make(n, body)


def mean(a, axis=None, keepdims=False):
    a = asarray(a)
    axes = _axes(a, axis)
    cnt = 1
    for k in axes:
        cnt = cnt * a.shape[k]
    return sum(a, axis=axis, keepdims=keepdims) / cnt


def prod(a, axis=None):
    if isinstance(a, (list, tuple)):
        r = 1
        for v in a:
            r = r * v
        return r
    a = asarray(a)
    if a.ndim == 1 and isinstance(a.shape[0], int):
        r = 1
        for i in range(a.shape[0]):
            r = r * a.at(i)
        return r
    raise Unsupported('prod')


def _extreme(a, axis, pick, name):
    _log(name)
    a = asarray(a)
    if axis is not None:
        ax = axis % a.ndim
        n = a.shape[ax]
        if not isinstance(n, int) or n > 64:
            raise Unsupported(name + ' along a symbolic axis')
        oshape = a.shape[:ax] + a.shape[ax + 1:]

        def fn(ix, a=a, ax=ax, n=n):
            r = a.at(*(ix[:ax] + (0,) + ix[ax:]))
            for k in range(1, n):
                r = pick(r, a.at(*(ix[:ax] + (k,) + ix[ax:])))
            return r
        if not oshape:
            return fn(())
        return SArr(oshape, fn, a.dtype)
    if all(isinstance(d, int) for d in a.shape) and a.size <= 64:
        vals = [a.at(*idx) for idx in itertools.product(*[range(d) for d in a.shape])]
        r = vals[0]
        for v in vals[1:]:
            r = pick(r, v)
        return r
    # symbolic extent: fresh value m with  forall idx: a[idx] <= m  instantiated lazily is not
    # expressible without quantifiers -> unsupported
    raise Unsupported(name + ' over symbolic extent')


def amax(a, axis=None): return _extreme(a, axis, smax, 'max')
def amin(a, axis=None): return _extreme(a, axis, smin, 'min')
max = amax
min = amin
nanmax = amax
nanmin = amin


def matmul(a, b):
    _log('matmul -> Sigma-term')
    a, b = asarray(a), asarray(b)
    dt = promote(a.dtype, b.dtype)
    if a.ndim == 1 and b.ndim == 1:
        if not dim_eq(a.shape[0], b.shape[0]):
            raise ValueError('matmul: shape mismatch')
        return _contract(a.shape[0], lambda k: a.at(k) * b.at(k))
    if a.ndim == 1:
        if not dim_eq(a.shape[0], b.shape[-2]):
            raise ValueError('matmul: shape mismatch')
        shp = b.shape[:-2] + (b.shape[-1],)
        return SArr(shp, lambda idx: _contract(a.shape[0], lambda k: a.at(k) * b.at(*(idx[:-1] + (k, idx[-1])))), dt)
    if b.ndim == 1:
        if not dim_eq(a.shape[-1], b.shape[0]):
            raise ValueError('matmul: shape mismatch')
        shp = a.shape[:-1]
        return SArr(shp, lambda idx: _contract(b.shape[0], lambda k: a.at(*(idx + (k,))) * b.at(k)), dt)
    if not dim_eq(a.shape[-1], b.shape[-2]):
        raise ValueError('matmul: Input operand 1 has a mismatch in its core dimension 0 (size %s is different from %s)'
                         % (b.shape[-2], a.shape[-1]))
    batch = bshape(a.shape[:-2], b.shape[:-2])
    nb = len(batch)
    shp = batch + (a.shape[-2], b.shape[-1])
    n = a.shape[-1]

    def fn(idx):
        bi = idx[:nb]
        i, j = idx[nb], idx[nb + 1]
        ai = _bidx(a.shape[:-2], bi, nb)
        bj = _bidx(b.shape[:-2], bi, nb)
        return _contract(n, lambda k: a.at(*(ai + (i, k))) * b.at(*(bj + (k, j))))
    return SArr(shp, fn, dt)


def _contract(n, f):
    if isinstance(n, int) and n <= 16:
        acc = 0
        for k in range(n):
            acc = acc + f(k)
        return acc
    return Sigma.make(n, f)


def dot(a, b):
    if is_scalar_like(a) or is_scalar_like(b) or isinstance(a, Cx) or isinstance(b, Cx):
        return a * b
    a, b = asarray(a), asarray(b)
    if a.ndim <= 2 and b.ndim <= 2:
        return matmul(a, b)
    raise Unsupported('dot of rank>2')


def tensordot(a, b, axes=2):
    _log('tensordot -> Sigma-term')
    a, b = asarray(a), asarray(b)
    if isinstance(axes, int):
        ax_a = list(range(a.ndim - axes, a.ndim))
        ax_b = list(range(axes))
    else:
        ax_a, ax_b = axes
        ax_a = [ax_a] if isinstance(ax_a, int) else list(ax_a)
        ax_b = [ax_b] if isinstance(ax_b, int) else list(ax_b)
    ax_a = [x % a.ndim for x in ax_a]
    ax_b = [x % b.ndim for x in ax_b]
    if len(ax_a) != len(ax_b):
        raise ValueError('shape-mismatch for sum')
    for x, y in zip(ax_a, ax_b):
        if not dim_eq(a.shape[x], b.shape[y]):
            raise ValueError('shape-mismatch for sum')
    free_a = [k for k in range(a.ndim) if k not in ax_a]
    free_b = [k for k in range(b.ndim) if k not in ax_b]
    shp = tuple(a.shape[k] for k in free_a) + tuple(b.shape[k] for k in free_b)
    dt = promote(a.dtype, b.dtype)

    def fn(idx):
        ia = [None] * a.ndim
        ib = [None] * b.ndim
        for o, k in enumerate(free_a):
            ia[k] = idx[o]
        for o, k in enumerate(free_b):
            ib[k] = idx[len(free_a) + o]

        def rec(j, ia, ib):
            if j == len(ax_a):
                return a.at(*ia) * b.at(*ib)
            n = a.shape[ax_a[j]]

            def body(v):
                ia2, ib2 = list(ia), list(ib)
                ia2[ax_a[j]] = v
                ib2[ax_b[j]] = v
                return rec(j + 1, ia2, ib2)
            return _contract(n, body)
        return rec(0, ia, ib)
    if not shp:
        return fn(())
    return SArr(shp, fn, dt)


def einsum(subs, *ops):
    _log('einsum -> Sigma-term')
    ops = [asarray(o) for o in ops]
    subs = subs.replace(' ', '')
    if '->' in subs:
        lhs, out = subs.split('->')
    else:
        lhs, out = subs, None
    ins = lhs.split(',')
    if len(ins) != len(ops):
        raise ValueError('einsum operand count')
    # expand ellipsis
    ell = 0
    for s, o in zip(ins, ops):
        if '...' in s:
            ell = builtins.max(ell, o.ndim - (len(s) - 3))
    ellnames = ''.join(chr(ord('A') + k) for k in range(ell))
    ins2 = []
    for s, o in zip(ins, ops):
        if '...' in s:
            need = o.ndim - (len(s) - 3)
            s = s.replace('...', ellnames[ell - need:])
        if len(s) != o.ndim:
            raise ValueError('einsum subscripts do not match operand rank')
        ins2.append(s)
    if out is None:
        cnt = {}
        for s in ins2:
            for c in s:
                cnt[c] = cnt.get(c, 0) + 1
        out = ellnames + ''.join(sorted(c for c in cnt if cnt[c] == 1 and c not in ellnames))
    else:
        out = out.replace('...', ellnames)
    dims = {}
    for s, o in zip(ins2, ops):
        for c, d in zip(s, o.shape):
            if c in dims:
                if not dim_eq(dims[c], d):
                    if dim_is(dims[c], 1):
                        dims[c] = d
                    elif not dim_is(d, 1):
                        raise ValueError('einsum dimension mismatch for %s' % c)
            else:
                dims[c] = d
    summed = [c for c in dims if c not in out]
    shp = tuple(dims[c] for c in out)
    dt = ops[0].dtype
    for o in ops[1:]:
        dt = promote(dt, o.dtype)

    def fn(idx):
        env = {c: i for c, i in zip(out, idx)}

        def rec(j, env):
            if j == len(summed):
                r = 1
                for s, o in zip(ins2, ops):
                    ii = tuple(0 if (isinstance(d, int) and d == 1) else env[c] for c, d in zip(s, o.shape))
                    r = r * o.at(*ii)
                return r
            c = summed[j]

            def body(v):
                e2 = dict(env)
                e2[c] = v
                return rec(j + 1, e2)
            return _contract(dims[c], body)
        return rec(0, env)
    if not shp:
        return fn(())
    return SArr(shp, fn, dt)


def trapz(y, x=None, dx=1.0, axis=-1):
    _log('trapz')
    raise Unsupported('trapz')


def _argext(a, axis, less, name):
    """assumed contract: first extremal index of a 1-D array; the universally quantified part is
    instantiated at the index terms registered as hints (skolem indices and hint())."""
    _log(name + ': first extremal index (ground-instantiated at hints)')
    a = asarray(a)
    if a.ndim != 1 or axis not in (None, 0, -1):
        raise Unsupported(name + ' of rank %d' % a.ndim)
    n = a.shape[0]
    i = fresh_int(name)
    ctx.add(i.z >= 0)
    ctx.add((i < n).z if not isinstance(n, int) else i.z < n)
    ai = a.at(i)

    def inst(k, a=a, i=i, ai=ai, n=n):
        k = lift(k)
        ak = a.at(k)
        inr = sc.And(k >= 0, k < n)
        body = sc.And(sc.Not(less(ak, ai)), sc.Implies(k < i, less(ai, ak)))
        return sc.Implies(inr, body).z
    ctx.add_forall(inst)
    return i


def argmin(a, axis=None):
    return _argext(a, axis, lambda x, y: x < y, 'argmin')


def argmax(a, axis=None):
    return _argext(a, axis, lambda x, y: x > y, 'argmax')


def isclose(a, b, **kw):
    return a == b


def allclose(a, b, **kw):
    raise Unsupported('allclose')


def sinc(x):
    raise Unsupported('sinc')


def iterable(x):
    return isinstance(x, (list, tuple, SArr)) or hasattr(x, '__iter__')


def take(a, idx, axis=0):
    a = asarray(a)
    if axis != 0:
        a = moveaxis(a, axis, 0)
    return a[asarray(idx)] if not isinstance(idx, (int, SInt)) else a[idx]


def copy(a):
    return asarray(a).copy()


def count_nonzero(a):
    return sum(_map(lambda v: ite(v if isinstance(v, SBool) else lift(v) != 0, 1, 0), asarray(a), DT('i', 64)))


def identity(n, dtype=None):
    return eye(n, dtype=dtype)


def eye(n, m=None, dtype=None):
    m = n if m is None else m
    dt = as_dt(dtype)
    return SArr((n, m), lambda idx: _cast_in(ite(lift(idx[0]) == idx[1], 1, 0), dt), dt)


def diag(v):
    v = asarray(v)
    if v.ndim == 1:
        n = v.shape[0]
        return SArr((n, n), lambda idx: ite(lift(idx[0]) == idx[1], v.at(idx[0]), _cast_in(0, v.dtype)), v.dtype)
    raise Unsupported('diag of matrix')


def _minor(rows, i, j):
    return [[rows[r][c] for c in range(len(rows)) if c != j] for r in range(len(rows)) if r != i]


def _det(rows):
    n = len(rows)
    if n == 1:
        return rows[0][0]
    if n == 2:
        return rows[0][0] * rows[1][1] - rows[0][1] * rows[1][0]
    acc = 0
    for j in range(n):
        e = rows[0][j]
        if sc_is_zero(e):
            continue
        t = e * _det(_minor(rows, 0, j))
        acc = acc + t if j % 2 == 0 else acc - t
    return acc


def sc_is_zero(x):
    from .symarr import _is_zero
    return _is_zero(x)


class _Linalg:
    @staticmethod
    def inv(a):
        """exact inverse by the adjugate formula (n <= 4, last two axes); det != 0 is a safety obligation."""
        _log('linalg.inv: adjugate/det, exact')
        a = asarray(a)
        n = a.shape[-1]
        if not isinstance(n, int) or n > 4 or a.shape[-2] != n:
            raise Unsupported('inv of non-small matrix')
        nb = a.ndim - 2
        dt = a.dtype if a.dtype.kind in 'fc' else DT('f', 64)
        cache = {}

        def fn(idx):
            b = idx[:nb]
            key = tuple(i if isinstance(i, int) else ('z', z3.simplify(i.z).get_id()) for i in b)
            ent = cache.get(key)
            if ent is None:
                rows = [[a.at(*(b + (r, c))) for c in range(n)] for r in range(n)]
                d = _det(rows)
                ent = (rows, d, b)
                cache[key] = ent
            rows, d, _ = ent
            i, j = idx[nb], idx[nb + 1]
            if not (isinstance(i, int) and isinstance(j, int)):
                raise Unsupported('symbolic index into inverse')
            cof = _det(_minor(rows, j, i)) if n > 1 else 1
            if (i + j) % 2:
                cof = -cof
            return cof / d
        return SArr(a.shape, fn, dt)

    @staticmethod
    def det(a):
        a = asarray(a)
        n = a.shape[-1]
        if a.ndim != 2 or not isinstance(n, int) or n > 4:
            raise Unsupported('det')
        return _det([[a.at(r, c) for c in range(n)] for r in range(n)])

    @staticmethod
    def norm(a, *args, **kw):
        a = asarray(a)
        if a.ndim == 1 and isinstance(a.shape[0], int) and not args and not kw:
            acc = 0
            for k in range(a.shape[0]):
                v = a.at(k)
                acc = acc + (v.abs2() if isinstance(v, Cx) else v * v)
            return sc.ssqrt(acc)
        raise Unsupported('linalg.norm')

    def __getattr__(self, k):
        raise Unsupported('linalg.%s is not modelled' % k)


linalg = _Linalg()


def kron(a, b):
    _log('kron')
    a, b = asarray(a), asarray(b)
    if a.ndim != 2 or b.ndim != 2:
        raise Unsupported('kron of rank != 2')
    p, q = b.shape
    if not (isinstance(p, int) and isinstance(q, int)):
        raise Unsupported('kron with symbolic block')
    dt = promote(a.dtype, b.dtype)
    return SArr((a.shape[0] * p, a.shape[1] * q),
                lambda idx: a.at(idx[0] // p, idx[1] // q) * b.at(idx[0] % p, idx[1] % q), dt)


class _Random:
    """np.random: draws are havocked within the documented support (poisson: integers >= 0;
    normal: any real).  A harness may install its own noise model through `hook`."""
    hook = None

    def poisson(self, lam=1.0, size=None):
        _log('random.poisson: havoc, integer >= 0')
        if self.hook is not None:
            return self.hook('poisson', lam, size)
        shp = _shape(size) if size is not None else asarray(lam).shape
        nm = ctx.fresh_name('poisson')
        a = sym_array(nm, shp, DT('i', 64), register=False)
        src = a._fn
        def fn(idx):
            v = src(idx)
            ctx.add(v.z >= 0)
            return v
        a._fn = fn
        return a

    def normal(self, loc=0.0, scale=1.0, size=None):
        _log('random.normal: havoc, any real')
        if self.hook is not None:
            return self.hook('normal', (loc, scale), size)
        shp = _shape(size) if size is not None else asarray(loc).shape
        return sym_array(ctx.fresh_name('normal'), shp, DT('f', 64), register=False)


    def __getattr__(self, k):
        raise Unsupported('random.%s is not modelled' % k)


random = _Random()


# --------------------------------------------------------------------------- fft
class _FFT:
    """scipy.fft model: index maps for shifts, DFT sums as Sigma-terms (assumed contracts)."""

    @staticmethod
    def next_fast_len(n, real=False):
        """assumed contract: returns some K >= n (value unspecified)."""
        _log('fft.next_fast_len: K >= n')
        if isinstance(n, int):
            import scipy.fft
            return scipy.fft.next_fast_len(n)
        k = fresh_int('nfl')
        ctx.add(k.z >= n.z)
        return k

    @staticmethod
    def fftshift(a, axes=None):
        _log('fft.fftshift = roll by n//2')
        a = asarray(a)
        axes = range(a.ndim) if axes is None else ([axes] if isinstance(axes, int) else axes)
        for ax in axes:
            n = a.shape[ax % a.ndim]
            a = _roll1(a, n // 2, ax % a.ndim)
        return a

    @staticmethod
    def ifftshift(a, axes=None):
        _log('fft.ifftshift = roll by -(n//2)')
        a = asarray(a)
        axes = range(a.ndim) if axes is None else ([axes] if isinstance(axes, int) else axes)
        for ax in axes:
            n = a.shape[ax % a.ndim]
            a = _roll1(a, -(n // 2), ax % a.ndim)
        return a

    @staticmethod
    def fftfreq(n, d=1.0):
        _log('fft.fftfreq')
        nn = lift(n)

        def fn(idx):
            k = lift(idx[0])
            return ite(k <= (nn - 1) // 2, k, k - nn) / (nn * d)
        return SArr((cdim(n),), fn, DT('f', 64))

    @staticmethod
    def _dft1(a, ax, n_out, sign, norm):
        """DFT along axis ax with zero-extension/truncation to n_out."""
        n_in = a.shape[ax]
        n_out = n_in if n_out is None else cdim(n_out)
        dt = a.dtype if a.dtype.kind == 'c' else DT('c', 128 if a.dtype.bits != 32 else 64)
        ncommon = n_in if n_out is n_in else smin(n_in, n_out)
        if isinstance(ncommon, SInt):
            ncommon = cdim(ncommon)

        def fn(idx):
            k = idx[ax]

            def body(j):
                ph = sign * 2 * pi * (lift(j) * k) / n_out
                return a.at(*(idx[:ax] + (j,) + idx[ax + 1:])) * Cx.expi(ph)
            s = _contract(ncommon, body)
            if norm == 'ortho':
                return s / sc.ssqrt(lift(n_out))
            if (norm in (None, 'backward') and sign > 0) or (norm == 'forward' and sign < 0):
                return s / n_out
            return s
        shp = a.shape[:ax] + (n_out,) + a.shape[ax + 1:]
        return SArr(shp, fn, dt)

    @staticmethod
    def fft(a, n=None, axis=-1, norm=None):
        _log('fft.fft = DFT sum')
        a = asarray(a)
        return _FFT._dft1(a, axis % a.ndim, n, -1, norm)

    @staticmethod
    def ifft(a, n=None, axis=-1, norm=None):
        _log('fft.ifft = inverse DFT sum')
        a = asarray(a)
        return _FFT._dft1(a, axis % a.ndim, n, +1, norm)

    @staticmethod
    def fft2(a, s=None, axes=(-2, -1), norm=None):
        _log('fft.fft2 = 2-D DFT sum')
        a = asarray(a)
        s = (None, None) if s is None else s
        r = _FFT._dft1(a, axes[1] % a.ndim, s[1], -1, norm)
        return _FFT._dft1(r, axes[0] % a.ndim, s[0], -1, norm)

    @staticmethod
    def ifft2(a, s=None, axes=(-2, -1), norm=None):
        _log('fft.ifft2 = 2-D inverse DFT sum')
        a = asarray(a)
        s = (None, None) if s is None else s
        r = _FFT._dft1(a, axes[1] % a.ndim, s[1], +1, norm)
        return _FFT._dft1(r, axes[0] % a.ndim, s[0], +1, norm)


    def __getattr__(self, k):
        raise Unsupported('fft.%s is not modelled' % k)


fft = _FFT()


class _NDImage:
    @staticmethod
    def center_of_mass(a, *args):
        """assumed contract: (sum_i i w / sum w per axis).  Only the point-source instance is available
        deductively: for w = A*delta_(p,q), A != 0 the result is exactly (p, q) (delta collapses the sums)."""
        _log('ndimage.center_of_mass: point-source instance com(A*delta_p) = p')
        a = asarray(a)
        d = getattr(a, '_delta', None)
        if d is None:
            raise Unsupported('center_of_mass of a general array (only the point-source instance is modelled)')
        return tuple(SReal(sc._toreal(lift(p).z)) for p in d)


    @staticmethod
    def convolve(a, k, **kw):
        """assumed contract: result has the input's shape and dtype; values unconstrained (havoc)."""
        _log('ndimage.convolve: havoc of the same shape')
        a = asarray(a)
        return sym_array(ctx.fresh_name('convolve'), a.shape, a.dtype if a.dtype.kind in 'fc' else DT('f', 64), register=False)

    def __getattr__(self, k):
        raise Unsupported('ndimage.%s is not modelled' % k)


ndimage = _NDImage()


# -------------------------------------------------------------------------- math
class _Math:
    pi = pi
    e = _math.e
    inf = _math.inf
    nan = _math.nan
    tau = 2 * pi

    @staticmethod
    def ceil(x):
        if is_sym(x):
            return sc.sceil(x)
        return _math.ceil(x)

    @staticmethod
    def floor(x):
        if is_sym(x):
            return sc.sfloor(x)
        return _math.floor(x)

    @staticmethod
    def trunc(x):
        return sc.strunc(x) if is_sym(x) else _math.trunc(x)

    @staticmethod
    def sqrt(x):
        if is_sym(x):
            return sc.ssqrt(x)
        r = _math.sqrt(x)
        return r

    @staticmethod
    def cos(x): return sc.scos(x) if is_sym(x) or x == _math.pi else _math.cos(x)
    @staticmethod
    def sin(x): return sc.ssin(x) if is_sym(x) else _math.sin(x)
    @staticmethod
    def tan(x): return sc.ssin(x) / sc.scos(x) if is_sym(x) else _math.tan(x)
    @staticmethod
    def exp(x): return sc.sexp(x) if is_sym(x) else _math.exp(x)
    @staticmethod
    def log(x, *a): return sc.slog(x) if is_sym(x) else _math.log(x, *a)
    @staticmethod
    def atan(x): return sc.sarctan(x) if is_sym(x) else _math.atan(x)
    @staticmethod
    def atan2(y, x): return sc.sarctan2(y, x) if is_sym((x, y)) else _math.atan2(y, x)
    @staticmethod
    def hypot(x, y): return sc.ssqrt(x * x + y * y) if is_sym((x, y)) else _math.hypot(x, y)
    @staticmethod
    def fabs(x): return abs(x)
    @staticmethod
    def radians(x): return x * pi / 180
    @staticmethod
    def degrees(x): return x * 180 / pi
    @staticmethod
    def isnan(x): return False if is_sym(x) else _math.isnan(x)
    @staticmethod
    def isfinite(x): return True if is_sym(x) else _math.isfinite(x)
    @staticmethod
    def log2(x):
        if is_sym(x):
            raise Unsupported('log2 of symbolic')
        return _math.log2(x)
    @staticmethod
    def factorial(n):
        if is_sym(n):
            raise Unsupported('factorial of symbolic')
        return _math.factorial(n)
    @staticmethod
    def comb(n, k): return _math.comb(n, k)
    @staticmethod
    def gcd(a, b): return _math.gcd(a, b)
    @staticmethod
    def copysign(a, b): return _math.copysign(a, b)
    @staticmethod
    def isclose(a, b, **kw): return a == b


    def __getattr__(self, k):
        raise Unsupported('math.%s is not modelled' % k)


math = _Math()


# ----------------------------------------------------------------- builtins patch
_INT_TYPES = (int, SInt)
_FLOAT_TYPES = (float, SReal)


def _map_type(t):
    if t is b_int:
        t = int
    elif t is b_float:
        t = float
    if t is int:
        return (int, SInt, _np.integer)
    if t is float:
        return (float, SReal, _np.floating)
    if t is bool:
        return (bool, SBool)
    if t is complex:
        return (complex, Cx)
    if t is _np.ndarray:
        return (_np.ndarray, SArr)
    return (t,)


def b_isinstance(obj, cls):
    if isinstance(cls, tuple):
        flat = ()
        for c in cls:
            flat += _map_type(c)
        cls = flat
    else:
        cls = _map_type(cls)
    return isinstance(obj, cls)


def b_len(x):
    if isinstance(x, SArr):
        if not x.shape:
            raise TypeError('len() of unsized object')
        return x.shape[0]
    from .loops import SList
    if isinstance(x, SList):
        return cdim(x.length)
    return len(x)


def b_list(x=()):
    from .loops import SList
    if isinstance(x, SList):
        return SList(x.length, x.fn)
    return list(x)


def b_int(x=0, *a):
    if isinstance(x, Sc):
        return sc.strunc(x)
    if isinstance(x, SArr):
        return sc.strunc(x.item())
    return int(x, *a)


def b_float(x=0.0):
    if isinstance(x, SBool):
        x = x.asint()
    if isinstance(x, Sc):
        return SReal(sc._toreal(x.z))
    if isinstance(x, SArr):
        return b_float(x.item())
    return float(x)


def b_bool(x=False):
    return bool(x)


def b_abs(x):
    return abs(x)


def b_max(*args, **kw):
    if len(args) == 1:
        args = list(args[0])
    if not is_sym(args):
        return builtins.max(*args, **kw)
    r = args[0]
    for v in args[1:]:
        r = smax(r, v)   # python's max returns first maximal; value-equal
    return r


def b_min(*args, **kw):
    if len(args) == 1:
        args = list(args[0])
    if not is_sym(args):
        return builtins.min(*args, **kw)
    r = args[0]
    for v in args[1:]:
        r = smin(r, v)
    return r


def b_round(x, n=None):
    if isinstance(x, SReal):
        return sc.round_half_even(x) if n is None else x.__round__(n)
    return builtins.round(x, n) if n is not None else builtins.round(x)


class b_range:
    """range() accepting symbolic bounds when the trip count is concrete after simplification."""
    def __new__(cls, *args):
        if not is_sym(args):
            return range(*args)
        cargs = []
        for a in args:
            a = cdim(a)
            if not isinstance(a, int):
                raise Unsupported('range() with symbolic bound (loop needs an invariant) at %s' % _site())
            cargs.append(a)
        return range(*cargs)


def b_divmod(a, b):
    return a // b, a % b


def b_sum(it, start=0):
    acc = start
    for v in it:
        acc = acc + v
    return acc


BUILTIN_PATCH = {
    'isinstance': b_isinstance, 'len': b_len, 'int': b_int, 'float': b_float, 'max': b_max, 'min': b_min,
    'round': b_round, 'range': b_range, 'divmod': b_divmod, 'sum': b_sum, 'abs': b_abs, 'list': b_list,
}


def __getattr__(name):
    if name.startswith('__'):
        raise AttributeError(name)
    raise Unsupported('numpy.%s is not modelled' % name)
