"""pvc symbolic core: path-exploring symbolic scalars over z3.

The real prysm functions run under CPython; every scalar they touch is one of the
classes below.  Branching on a symbolic boolean forks the path (re-execution with a
decision prefix, as CrossHair does), so every feasible path of the *real* code is
explored and every `check` becomes a verification condition  pc /\\ not(post).

Semantics assumed (DESIGN 1.3): floats are reals (A1), ints are mathematical (A2).
"""
import fractions
import math as _math
import os
import sys
import traceback

import z3

REPO = os.environ.get('PVC_REPO', '/repo')


class PathAbort(Exception):
    """Current path is infeasible / assumption false: drop silently."""


class Unsupported(Exception):
    """Construct outside the modelled subset: obligation becomes UNDECIDED."""


class StopPath(Exception):
    """Normal early end of a path (e.g. after a loop-preservation check)."""


# --------------------------------------------------------------------------- ctx
class Ctx:
    def __init__(self):
        self.reset_all()

    def reset_all(self):
        self.solver = z3.Solver()
        self.solver.set('timeout', 3000)
        self.pc = []
        self.decisions = []
        self.trail = []
        self.pending = []
        self.fresh = 0
        self.results = []          # (name, verdict, info)
        self.vc_timeout_ms = 10000
        self.prefer_cli = False
        self.npaths = 0
        self.inputs = {}           # name -> z3 const / array description (for model extraction)
        self.div_safety = True
        self.safety_names = set()
        self.lemma_axioms = []
        self.solver_s = 0.0
        self.stats = {'vc': 0, 'feas': 0}
        self.assumed = []          # human-readable list of assumptions made by harness
        self.axiom_log = set()     # names of library axioms instantiated
        self.current = None        # name of harness for messages
        self.dim_consts = set()
        self.path_id = 0
        self._vc_seen = {}
        self.foralls = []
        self.hints = []

    def begin_path(self, decisions):
        self.solver.reset()
        self.solver.set('timeout', 3000)
        self.pc = []
        self.decisions = list(decisions)
        self.trail = []
        self._uf_seen = set()
        self.foralls = []
        self.hints = []
        self.path_id = getattr(self, 'path_id', 0) + 1
        self._vc_seen = {}

    # ground instantiation of universally quantified library facts (never hand z3 a quantifier)
    def add_forall(self, f):
        self.foralls.append(f)
        for h in self.hints:
            self.add(f(h))

    def add_hint(self, term):
        self.hints.append(term)
        for f in self.foralls:
            self.add(f(term))

    # path condition ---------------------------------------------------------
    def add(self, z):
        z = z3.simplify(z) if not isinstance(z, bool) else z3.BoolVal(z)
        if z3.is_true(z):
            return
        self.pc.append(z)
        # the branch-feasibility solver only sees the cheap (linear) part of the path condition: treating an
        # infeasible branch as feasible is sound (its VCs hold vacuously under the full pc), and keeps
        # nonlinear axioms out of the hundreds of feasibility queries
        if not _looks_nonlinear(z, 3000):
            self.solver.add(z)

    def feasible(self, z=None):
        import time
        t = time.time()
        self.stats['feas'] += 1
        if z is None:
            r = self.solver.check()
        else:
            r = self.solver.check(z)
        self.solver_s += time.time() - t
        return r != z3.unsat

    def branch(self, z):
        z = z3.simplify(z)
        if z3.is_true(z):
            return True
        if z3.is_false(z):
            return False
        k = len(self.trail)
        if k < len(self.decisions):
            d = self.decisions[k]
            self.trail.append(d)
            self.add(z if d else z3.Not(z))
            return d
        t_ok = self.feasible(z)
        f_ok = self.feasible(z3.Not(z))
        if t_ok and f_ok:
            self.pending.append(self.trail + [False])
            self.trail.append(True)
            self.add(z)
            return True
        if t_ok:
            self.trail.append(True)
            self.add(z)
            return True
        if f_ok:
            self.trail.append(False)
            self.add(z3.Not(z))
            return False
        raise PathAbort('both branches infeasible')

    def fresh_name(self, base):
        self.fresh += 1
        return '%s!%d' % (base, self.fresh)


ctx = Ctx()

# uninterpreted atoms (A7)
Rs, Is, Bs = z3.RealSort(), z3.IntSort(), z3.BoolSort()
COS = z3.Function('u_cos', Rs, Rs)
SIN = z3.Function('u_sin', Rs, Rs)
SQRT = z3.Function('u_sqrt', Rs, Rs)
EXP = z3.Function('u_exp', Rs, Rs)
LOG = z3.Function('u_log', Rs, Rs)
ATAN = z3.Function('u_arctan', Rs, Rs)
ATAN2 = z3.Function('u_arctan2', Rs, Rs, Rs)
ASIN = z3.Function('u_arcsin', Rs, Rs)
TANH = z3.Function('u_tanh', Rs, Rs)
POW = z3.Function('u_pow', Rs, Rs, Rs)
PI = z3.Real('PI')
ATOM_NAMES = {'u_cos', 'u_sin', 'u_sqrt', 'u_exp', 'u_log', 'u_arctan', 'u_arctan2', 'u_tanh', 'u_pow', 'u_arcsin'}   # + spec functions registered later


def _site():
    """file:line of the innermost frame that lives in the repository."""
    f = sys._getframe(1)
    while f is not None:
        fn = f.f_code.co_filename
        if fn.startswith(REPO):
            return '%s:%d' % (os.path.relpath(fn, REPO), f.f_lineno)
        f = f.f_back
    return '?'


# ----------------------------------------------------------------------- scalars
def _iscx(o):
    return isinstance(o, (Cx, complex)) or (hasattr(o, 'dtype') and getattr(o, 'ndim', 1) == 0 and o.dtype.kind == 'c'
                                            and not isinstance(o, Sc))


def _is_num(x):
    return isinstance(x, (int, float, fractions.Fraction)) and not isinstance(x, bool) or \
        type(x).__module__ == 'numpy' and hasattr(x, 'dtype') and getattr(x, 'ndim', 1) == 0 \
        and x.dtype.kind in 'iuf'


def zreal(x):
    """python number -> z3 real value (exact)."""
    if isinstance(x, bool):
        return z3.RealVal(int(x))
    if isinstance(x, int):
        return z3.RealVal(x)
    if isinstance(x, fractions.Fraction):
        return z3.RealVal(str(x))
    if hasattr(x, 'dtype'):
        x = x.item()
        return zreal(x)
    if isinstance(x, float):
        if x == _math.pi:
            return PI
        if x != x or x in (float('inf'), float('-inf')):
            raise Unsupported('non-finite float constant')
        fr = fractions.Fraction(x)
        # floats written as decimal literals: keep the short decimal (A1: reals)
        fr2 = fractions.Fraction(repr(x))
        if float(fr2) == x:
            fr = fr2
        return z3.RealVal(str(fr))
    raise TypeError(x)


class Sc:
    """symbolic scalar base."""
    __slots__ = ('z',)
    __array_priority__ = 1000

    def __hash__(self):
        # structural hash of the term: dictionary keys built from symbolic values (cache keys) behave like values
        return hash(z3.simplify(self.z))

    def __init__(self, z):
        self.z = z

    def __repr__(self):
        return '<%s %s>' % (type(self).__name__, str(z3.simplify(self.z))[:120])


def lift(x):
    """python/numpy scalar or Sc -> Sc"""
    if isinstance(x, Sc):
        return x
    if isinstance(x, bool) or type(x).__name__ == 'bool_' or type(x).__name__ == 'bool':
        return SBool(z3.BoolVal(bool(x)))
    if isinstance(x, int):
        return SInt(z3.IntVal(x))
    if hasattr(x, '_snapshot') and getattr(x, 'ndim', 1) == 0:
        return lift(x.at())            # 0-d symbolic array
    if hasattr(x, 'dtype') and getattr(x, 'ndim', 1) == 0:
        if x.dtype.kind in 'iu':
            return SInt(z3.IntVal(int(x)))
        if x.dtype.kind == 'f':
            return SReal(zreal(float(x)))
        if x.dtype.kind == 'b':
            return SBool(z3.BoolVal(bool(x)))
    if isinstance(x, (float, fractions.Fraction)):
        return SReal(zreal(x))
    raise TypeError('cannot lift %r' % (type(x),))


def is_scalar_like(x):
    if isinstance(x, (Sc, int, float, fractions.Fraction)):
        return True
    if hasattr(x, 'dtype') and getattr(x, 'ndim', 1) == 0 and x.dtype.kind in 'iufb':
        return True
    return False


def _toreal(z):
    return z3.ToReal(z) if z.sort() == Is else z


def _arith(a, b):
    """coerce pair of Sc (int/real/bool) to common arithmetic z3 sort."""
    az, bz = a.z, b.z
    if isinstance(a, SBool):
        az = z3.If(az, z3.IntVal(1), z3.IntVal(0))
    if isinstance(b, SBool):
        bz = z3.If(bz, z3.IntVal(1), z3.IntVal(0))
    if az.sort() == bz.sort():
        return az, bz, az.sort() == Is
    return _toreal(az), _toreal(bz), False


def _wrap(z, isint):
    return SInt(z) if isint else SReal(z)


def int_floordiv(az, bz):
    """Python floor division of z3 ints."""
    if z3.is_int_value(bz):
        b = bz.as_long()
        if b > 0:
            return az / bz
        if b < 0:
            return (-az) / z3.IntVal(-b)
        raise ZeroDivisionError('integer division by zero')
    # symbolic divisor: quotient-remainder variables
    if ctx.div_safety:
        safety('div', SBool(bz != 0))
    c = _cancel(az, bz)
    if c is not None:
        return c
    q = z3.Int(ctx.fresh_name('q'))
    r = z3.Int(ctx.fresh_name('r'))
    ctx.add(az == q * bz + r)
    ctx.add(z3.Implies(bz > 0, z3.And(r >= 0, r < bz)))
    ctx.add(z3.Implies(bz < 0, z3.And(r <= 0, r > bz)))
    return q


def _mul_factors(z):
    z = z3.simplify(z)
    if z3.is_app(z) and z.decl().kind() == z3.Z3_OP_MUL:
        out = []
        for c in z.children():
            out += _mul_factors(c)
        return out
    return [z]


def _cancel(az, bz):
    """(x*b) // b = x for b != 0: syntactic cancellation of every factor of b in a"""
    fa, fb = _mul_factors(az), _mul_factors(bz)
    rest = list(fa)
    for f in fb:
        for k, c in enumerate(rest):
            if c.eq(f):
                rest.pop(k)
                break
        else:
            return None
    if not rest:
        return z3.IntVal(1)
    return z3.simplify(z3.Product(*rest)) if len(rest) > 1 else rest[0]


def real_floor(z):
    return z3.ToInt(z)


def safety(kind, cond):
    """record a safety obligation located at the repository line that triggered it.
    In 'assume' mode (no_div_safety) the fact is assumed instead; the harness states which other
    harness discharges it."""
    if ctx.div_safety == 'assume':
        ctx.add(tobool(cond))
        ctx.assumed.append('denominators non-zero assumed inside no_div_safety blocks (discharged by the harness named there)')
        return
    name = 'safety/%s@%s' % (kind, _site())
    check(name, cond, safety=True)


class SNum(Sc):
    __slots__ = ()
    __hash__ = Sc.__hash__

    def _bin(self, other, op, rev=False):
        if isinstance(other, Cx):
            return NotImplemented
        if isinstance(other, complex) or (hasattr(other, 'dtype') and getattr(other, 'ndim', 1) == 0 and other.dtype.kind == 'c'):
            return NotImplemented
        if not is_scalar_like(other):
            return NotImplemented
        o = lift(other)
        a, b = (o, self) if rev else (self, o)
        az, bz, isint = _arith(a, b)
        return op(az, bz, isint)

    def __add__(self, o):
        if _iscx(o): return Cx.lift(self) + Cx.lift(o)
        return self._bin(o, lambda a, b, i: _wrap(a + b, i))
    def __radd__(self, o):
        if _iscx(o): return Cx.lift(o) + Cx.lift(self)
        return self._bin(o, lambda a, b, i: _wrap(a + b, i), True)
    def __sub__(self, o):
        if _iscx(o): return Cx.lift(self) - Cx.lift(o)
        return self._bin(o, lambda a, b, i: _wrap(a - b, i))
    def __rsub__(self, o):
        if _iscx(o): return Cx.lift(o) - Cx.lift(self)
        return self._bin(o, lambda a, b, i: _wrap(a - b, i), True)
    def __mul__(self, o):
        if _iscx(o): return Cx.lift(self) * Cx.lift(o)
        return self._bin(o, lambda a, b, i: _wrap(a * b, i))
    def __rmul__(self, o):
        if _iscx(o): return Cx.lift(o) * Cx.lift(self)
        return self._bin(o, lambda a, b, i: _wrap(a * b, i), True)

    @staticmethod
    def _tdiv(a, b, i):
        a, b = _toreal(a), z3.simplify(_toreal(b))
        if z3.is_rational_value(b) or z3.is_int_value(b):
            if z3.simplify(b == 0).eq(z3.BoolVal(True)):
                raise ZeroDivisionError('division by zero')
        elif ctx.div_safety:
            safety('div', SBool(b != 0))
        az = z3.simplify(a)
        if z3.is_rational_value(az) and az.as_fraction() == 0:
            return SReal(z3.RealVal(0))        # 0/b = 0 (b != 0 by the safety obligation above)
        return SReal(a / b)

    def __truediv__(self, o):
        if _iscx(o): return Cx.lift(self) / Cx.lift(o)
        return self._bin(o, self._tdiv)
    def __rtruediv__(self, o):
        if _iscx(o): return Cx.lift(o) / self
        return self._bin(o, self._tdiv, True)

    @staticmethod
    def _fdiv(a, b, i):
        if i:
            return SInt(int_floordiv(a, b))
        if ctx.div_safety and not z3.is_rational_value(b):
            safety('div', SBool(b != 0))
        return SReal(z3.ToReal(sfloor(SReal(a / b)).z))

    def __floordiv__(self, o): return self._bin(o, self._fdiv)
    def __rfloordiv__(self, o): return self._bin(o, self._fdiv, True)

    @staticmethod
    def _mod(a, b, i):
        if i:
            if z3.is_int_value(b):
                bv = b.as_long()
                if bv > 0:
                    return SInt(a % b)                    # z3 mod = python mod for a positive divisor
                if bv < 0:
                    return SInt(-((-a) % z3.IntVal(-bv)))
                raise ZeroDivisionError('integer modulo by zero')
            q = int_floordiv(a, b)
            return SInt(a - q * b)
        fa, fb = int_form(a), int_form(b)
        if fa is not None and fb is not None and fa[1] == 1 and fb[1] == 1 and z3.is_int_value(z3.simplify(fb[0])) \
                and z3.simplify(fb[0]).as_long() > 0:
            return SReal(z3.ToReal(fa[0] % z3.simplify(fb[0])))      # integer-valued operands: native mod
        return SReal(a - b * z3.ToReal(sfloor(SReal(a / b)).z))

    def __mod__(self, o): return self._bin(o, self._mod)
    def __rmod__(self, o): return self._bin(o, self._mod, True)

    def __divmod__(self, o):
        return self // o, self % o

    def __neg__(self): return type(self)(-self.z) if not isinstance(self, SBool) else SInt(-_arith(self, self)[0])
    def __pos__(self): return self

    def __abs__(self):
        z = self.z
        return type(self)(z3.If(z >= 0, z, -z))

    def __pow__(self, o, mod=None):
        return spow(self, o)

    def __rpow__(self, o):
        return spow(lift(o), self)

    # comparisons
    def _cmp(self, o, op):
        if isinstance(o, Cx):
            return NotImplemented
        if not is_scalar_like(o):
            return NotImplemented
        az, bz, _ = _arith(self, lift(o))
        return SBool(op(az, bz))

    def __lt__(self, o): return self._cmp(o, lambda a, b: a < b)
    def __le__(self, o): return self._cmp(o, lambda a, b: a <= b)
    def __gt__(self, o): return self._cmp(o, lambda a, b: a > b)
    def __ge__(self, o): return self._cmp(o, lambda a, b: a >= b)

    def __eq__(self, o):
        if o is None or isinstance(o, (str, tuple, list, dict)):
            return False
        r = self._cmp(o, lambda a, b: a == b)
        return r

    def __ne__(self, o):
        if o is None or isinstance(o, (str, tuple, list, dict)):
            return True
        return self._cmp(o, lambda a, b: a != b)

    def __bool__(self):
        return ctx.branch(self.z != 0)

    # numpy-scalar-like surface
    @property
    def real(self): return self
    @property
    def imag(self): return SInt(z3.IntVal(0))
    def conj(self): return self
    def conjugate(self): return self
    @property
    def shape(self): return ()
    @property
    def ndim(self): return 0
    @property
    def size(self): return 1
    def item(self): return self
    def copy(self): return self

    def astype(self, dt):
        from . import symarr
        return symarr.cast_scalar(self, dt)


class SInt(SNum):
    __slots__ = ()

    def __index__(self):
        z = z3.simplify(self.z)
        if z3.is_int_value(z):
            return z.as_long()
        raise Unsupported('symbolic int used where a concrete int is required (%s) at %s' % (z, _site()))

    def __int__(self):
        return self.__index__()

    def __float__(self):
        return float(self.__index__())

    def __and__(self, o):
        if isinstance(o, int) and o == 1:
            return SInt(self.z % 2)
        if isinstance(o, SBool) or isinstance(o, bool):
            return NotImplemented
        raise Unsupported('bitwise and')

    __rand__ = __and__

    def __lshift__(self, o): raise Unsupported('shift')
    def __rlshift__(self, o):
        return spow(lift(2), self) * o
    def __trunc__(self): return self
    def __floor__(self): return self
    def __ceil__(self): return self
    def __round__(self, n=None): return self

    @property
    def dtype(self):
        from . import symarr
        return symarr.DT('i', 64)


class SReal(SNum):
    __slots__ = ()

    def __float__(self):
        z = z3.simplify(self.z)
        if z3.is_rational_value(z):
            return float(z.as_fraction())
        raise Unsupported('symbolic real used where a concrete float is required at %s' % _site())

    def __trunc__(self):
        z = self.z
        return SInt(z3.If(z >= 0, z3.ToInt(z), -z3.ToInt(-z)))

    def __int__(self):
        z = z3.simplify(self.z)
        if z3.is_rational_value(z):
            return int(z.as_fraction())
        raise Unsupported('int() of symbolic real via __int__ (module must use patched int) at %s' % _site())

    def __floor__(self): return SInt(z3.ToInt(self.z))
    def __ceil__(self): return SInt(-z3.ToInt(-self.z))

    def __round__(self, n=None):
        if n is not None:
            raise Unsupported('round to digits')
        return round_half_even(self)

    def is_integer(self):
        return SBool(z3.ToReal(z3.ToInt(self.z)) == self.z)

    @property
    def dtype(self):
        from . import symarr
        return symarr.DT('f', 64)


def round_half_even(x):
    z = x.z
    f = z3.ToInt(z)
    fr = z - z3.ToReal(f)
    up = z3.Or(fr > z3.RealVal('1/2'), z3.And(fr == z3.RealVal('1/2'), f % 2 != 0))
    return SInt(z3.If(up, f + 1, f))


class SBool(Sc):
    __slots__ = ()
    __hash__ = Sc.__hash__

    def __bool__(self):
        return ctx.branch(self.z)

    def _b(self, o):
        if isinstance(o, SBool):
            return o.z
        if isinstance(o, bool) or type(o).__name__ in ('bool_', 'bool'):
            return z3.BoolVal(bool(o))
        return None

    def __and__(self, o):
        b = self._b(o)
        if b is None:
            return NotImplemented
        return SBool(z3.And(self.z, b))
    __rand__ = __and__

    def __or__(self, o):
        b = self._b(o)
        if b is None:
            return NotImplemented
        return SBool(z3.Or(self.z, b))
    __ror__ = __or__

    def __xor__(self, o):
        b = self._b(o)
        if b is None:
            return NotImplemented
        return SBool(z3.Xor(self.z, b))
    __rxor__ = __xor__

    def __invert__(self):
        return SBool(z3.Not(self.z))

    def __eq__(self, o):
        b = self._b(o)
        if b is None:
            if is_scalar_like(o):
                return self.asint() == o
            return False
        return SBool(self.z == b)

    def __ne__(self, o):
        r = self.__eq__(o)
        if r is False:
            return True
        return ~r

    def asint(self):
        return SInt(z3.If(self.z, z3.IntVal(1), z3.IntVal(0)))

    # arithmetic on bools goes through ints
    def __add__(self, o): return self.asint() + o
    def __radd__(self, o): return o + self.asint()
    def __sub__(self, o): return self.asint() - o
    def __rsub__(self, o): return o - self.asint()
    def __mul__(self, o): return self.asint() * o
    def __rmul__(self, o): return o * self.asint()
    def __neg__(self): return -self.asint()
    def __lt__(self, o): return self.asint() < o
    def __le__(self, o): return self.asint() <= o
    def __gt__(self, o): return self.asint() > o
    def __ge__(self, o): return self.asint() >= o
    def __truediv__(self, o): return self.asint() / o
    def __rtruediv__(self, o): return o / self.asint()

    @property
    def dtype(self):
        from . import symarr
        return symarr.DT('b', None)


def spow(a, b):
    """a ** b"""
    if isinstance(a, Cx) or isinstance(b, Cx) or isinstance(b, complex):
        raise Unsupported('complex power')
    a = lift(a)
    if isinstance(b, Sc):
        bz = z3.simplify(b.z)
        if z3.is_int_value(bz):
            b = bz.as_long()
        elif z3.is_rational_value(bz):
            b = bz.as_fraction()
    if isinstance(b, float):
        fb = fractions.Fraction(b)
        b = int(fb) if fb.denominator == 1 else fb
    if isinstance(b, int) and not isinstance(b, bool):
        if b == 0:
            return lift(1) if isinstance(a, SInt) else SReal(z3.RealVal(1))
        if abs(b) <= 64:
            r = a
            for _ in range(abs(b) - 1):
                r = r * a
            if b < 0:
                return 1 / r
            return r
        raise Unsupported('large constant power')
    if isinstance(b, fractions.Fraction):
        if b == fractions.Fraction(1, 2):
            return ssqrt(a)
        if b == fractions.Fraction(-1, 2):
            return 1 / ssqrt(a)
        if b.denominator == 2:
            n = int(b - fractions.Fraction(1, 2)) if b > 0 else None
            if n is not None:
                return spow(a, n) * ssqrt(a)
            return 1 / spow(a, -b)
        raise Unsupported('fractional power %s' % b)
    # symbolic exponent: uninterpreted pow with recurrence instances
    b = lift(b)
    az = z3.simplify(a.z)
    if isinstance(b, SInt) and z3.is_int_value(az) and az.as_long() >= 1:
        # concrete integer base, integer exponent provably in [0, 64]: exact ite chain
        if not ctx.feasible(z3.Or(b.z < 0, b.z > 64)):
            base = az.as_long()
            r = z3.IntVal(base ** 64)
            for e in range(63, -1, -1):
                r = z3.If(b.z == e, z3.IntVal(base ** e), r)
            return SInt(r)
    return upow(a, b)


def upow(a, b):
    az, bz = _toreal(a.z), _toreal(b.z)
    t = POW(az, bz)
    key = ('pow', az.get_id(), bz.get_id())
    if key not in ctx._uf_seen:
        ctx._uf_seen.add(key)
        ctx.axiom_log.add('pow: x^0=1, x^(n)=x*x^(n-1) [instantiated at use], x>0 -> x^n>0')
        ctx.add(z3.Implies(bz == 0, t == 1))
        ctx.add(z3.Implies(bz == 1, t == az))
        ctx.add(z3.Implies(az > 0, t > 0))
        ctx.add(z3.Implies(z3.And(az == 0, bz > 0), t == 0))
    isint = isinstance(a, SInt) and isinstance(b, SInt)
    return SReal(t)


def _atom1(F, name, x, axioms):
    x = lift(x)
    xz = z3.simplify(_toreal(x.z))
    t = F(xz)
    key = (name, xz.get_id())
    if key not in ctx._uf_seen:
        ctx._uf_seen.add(key)
        for ax in axioms(xz, t):
            ctx.add(ax)
    return SReal(t)


def _neg_form(xz):
    """if xz is syntactically -(y) return y else None."""
    xz = z3.simplify(xz)
    if z3.is_rational_value(xz):
        if xz.as_fraction() < 0:
            return z3.simplify(-xz)
        return None
    if z3.is_app(xz) and xz.decl().kind() == z3.Z3_OP_MUL:
        c0 = xz.arg(0)
        if z3.is_rational_value(c0) and c0.as_fraction() < 0:
            return z3.simplify(-xz)
    if z3.is_app(xz) and xz.decl().kind() == z3.Z3_OP_UMINUS:
        return xz.arg(0)
    if z3.is_app(xz) and xz.decl().kind() == z3.Z3_OP_ADD:
        # negative if first summand has negative leading coefficient
        c0 = xz.arg(0)
        n0 = _neg_form(c0)
        if n0 is not None:
            return z3.simplify(-xz)
    return None


def special_angle(xz):
    """Fraction c if the angle is identically c*PI as a rational function of its atoms (denominators are
    non-zero on this path by the division-safety obligations), else None."""
    if not _looks_nonlinear(xz, 400):
        if xz.eq(PI):
            return fractions.Fraction(1)
        return None
    from . import pit
    try:
        cv = pit.FConv()
        rf = cv.conv(xz)
        pi_rf = cv.conv(PI)
    except (pit.NotPoly, RecursionError):
        return None
    if rf.n.is_zero():
        return fractions.Fraction(0)
    den = rf.den_poly()
    if not den.t:
        return None
    md, cd = next(iter(sorted(den.t.items())))
    target = pit._mmul(md, next(iter(pi_rf.n.t)))
    cn = rf.n.t.get(target)
    if cn is None:
        return None
    c = cn / cd
    diff = rf.n - pit.FP.const(c) * pi_rf.n * den
    if diff.is_zero():
        return c
    return None


def _special_trig(xz, which):
    c = special_angle(xz)
    if c is None:
        return None
    c2 = c * 2
    if c2.denominator != 1:
        return None
    k = int(c2) % 4
    ctx.axiom_log.add('cos/sin at integer multiples of PI/2 (exact values)')
    val = {'cos': [1, 0, -1, 0], 'sin': [0, 1, 0, -1]}[which][k]
    return SReal(z3.RealVal(val))


def scos(x):
    x = lift(x)
    xz = z3.simplify(_toreal(x.z))
    sp = _special_trig(xz, 'cos')
    if sp is not None:
        return sp
    n = _neg_form(xz)
    if n is not None:
        return scos(SReal(n))
    if z3.is_rational_value(xz) and xz.as_fraction() == 0:
        return SReal(z3.RealVal(1))
    ctx.axiom_log.add('cos/sin atoms: cos^2+sin^2=1, parity (A7)')
    return _atom1(COS, 'cos', SReal(xz), lambda a, t: [t * t + SIN(a) * SIN(a) == 1, t <= 1, t >= -1])


def ssin(x):
    x = lift(x)
    xz = z3.simplify(_toreal(x.z))
    sp = _special_trig(xz, 'sin')
    if sp is not None:
        return sp
    n = _neg_form(xz)
    if n is not None:
        return -ssin(SReal(n))
    if z3.is_rational_value(xz) and xz.as_fraction() == 0:
        return SReal(z3.RealVal(0))
    ctx.axiom_log.add('cos/sin atoms: cos^2+sin^2=1, parity (A7)')
    return _atom1(SIN, 'sin', SReal(xz), lambda a, t: [t * t + COS(a) * COS(a) == 1, t <= 1, t >= -1])


def ssqrt(x):
    x = lift(x)
    xz = z3.simplify(_toreal(x.z))
    if z3.is_rational_value(xz):
        fr = xz.as_fraction()
        if fr >= 0:
            n, d = fr.numerator, fr.denominator
            rn, rd = _math.isqrt(n), _math.isqrt(d)
            if rn * rn == n and rd * rd == d:
                return SReal(z3.RealVal(str(fractions.Fraction(rn, rd))))
    ctx.axiom_log.add('sqrt atom: w>=0, w*w=u for u>=0 (A7)')

    def axioms(a, t):
        out = [z3.Implies(a >= 0, z3.And(t >= 0, t * t == a))]
        if isinstance(x, SInt) or (z3.is_app(a) and a.decl().kind() == z3.Z3_OP_TO_REAL):
            # integer radicand: integer square root r brackets w (derived fact: r = floor(w))
            u = x.z if isinstance(x, SInt) else a.arg(0)
            r = z3.Int(ctx.fresh_name('isqrt'))
            rr = z3.ToReal(r)
            out.append(z3.Implies(u >= 0, z3.And(r >= 0, r * r <= u, u < (r + 1) * (r + 1), rr <= t, t < rr + 1,
                                                 (t == rr) == (r * r == u))))
        return out
    res = _atom1(SQRT, 'sqrt', SReal(xz), axioms)
    if isinstance(x, SInt):
        ctx._vc_seen[('sqrt_int', res.z.get_id())] = (res.z, x.z)
    return res


def sexp(x):
    ctx.axiom_log.add('exp atom: exp>0, exp(0)=1, exp(-u)exp(u)=1 (A7)')
    x = lift(x)
    xz = z3.simplify(_toreal(x.z))
    if z3.is_rational_value(xz) and xz.as_fraction() == 0:
        return SReal(z3.RealVal(1))
    return _atom1(EXP, 'exp', SReal(xz), lambda a, t: [t > 0, t * EXP(z3.simplify(-a)) == 1])


def slog(x):
    ctx.axiom_log.add('log atom: uninterpreted (A7)')
    return _atom1(LOG, 'log', x, lambda a, t: [])


def sarctan(x):
    ctx.axiom_log.add('arctan atom: uninterpreted, odd (A7)')
    return _atom1(ATAN, 'arctan', x, lambda a, t: [])


def stanh(x):
    ctx.axiom_log.add('tanh atom: -1<tanh<1 (A7)')
    return _atom1(TANH, 'tanh', x, lambda a, t: [t < 1, t > -1])


def sarctan2(y, x):
    ctx.axiom_log.add('arctan2/hypot: x=h cos t, y=h sin t (1.5)')
    y, x = lift(y), lift(x)
    yz, xz = z3.simplify(_toreal(y.z)), z3.simplify(_toreal(x.z))
    t = ATAN2(yz, xz)
    key = ('atan2', yz.get_id(), xz.get_id())
    if key not in ctx._uf_seen:
        ctx._uf_seen.add(key)
        h = SQRT(z3.simplify(xz * xz + yz * yz))
        ctx.add(z3.And(h >= 0, h * h == xz * xz + yz * yz))
        ctx.add(COS(t) * COS(t) + SIN(t) * SIN(t) == 1)
        ctx.add(xz == h * COS(t))
        ctx.add(yz == h * SIN(t))
    return SReal(t)


def sarcsin(x):
    """arcsin for |x| <= 1 (real branch): sin(arcsin x) = x, cos(arcsin x) >= 0"""
    ctx.axiom_log.add('arcsin atom: sin(arcsin u)=u, cos(arcsin u)>=0 for |u|<=1 (A7)')
    x = lift(x)
    xz = z3.simplify(_toreal(x.z))
    if z3.is_rational_value(xz) and xz.as_fraction() == 0:
        return SReal(z3.RealVal(0))
    return _atom1(ASIN, 'arcsin', SReal(xz),
                  lambda a, t: [z3.Implies(z3.And(a >= -1, a <= 1), z3.And(SIN(t) == a, COS(t) >= 0, COS(t) * COS(t) + a * a == 1))])


def _find_sqrt_atoms(z, out, seen):
    if z.get_id() in seen:
        return
    seen.add(z.get_id())
    if z3.is_app(z):
        if z.decl().kind() == z3.Z3_OP_UNINTERPRETED and z.decl().name() == 'u_sqrt':
            out[z.get_id()] = z
            return
        for c in z.children():
            _find_sqrt_atoms(c, out, seen)


def _affine_in_sqrt(z):
    """if z = alpha*w + beta with w a single sqrt atom and alpha a positive rational: (w, alpha, beta)"""
    atoms = {}
    _find_sqrt_atoms(z, atoms, set())
    if len(atoms) != 1:
        return None
    w = list(atoms.values())[0]
    sub = lambda v: z3.simplify(z3.substitute(z, (w, z3.RealVal(v))))
    b0, b1, b2 = sub(0), sub(1), sub(2)
    al = z3.simplify(b1 - b0)
    if not z3.is_rational_value(al) or al.as_fraction() <= 0:
        return None
    lin = z3.simplify(b2 - b0 - 2 * al)
    if not (z3.is_rational_value(lin) and lin.as_fraction() == 0):
        return None
    return w, al, b0


def _round_sqrt_lemma(xz, res, kind):
    """derived facts for c = ceil(alpha*sqrt(u) + beta) / f = floor(...): the bracketing squared (monotonicity of
    squaring on non-negative reals).  When u is an integer term and 1/alpha, beta/alpha are integers the facts are
    stated in pure integer arithmetic."""
    aff = _affine_in_sqrt(xz)
    if aff is None:
        return
    w, al, be = aff
    u = w.arg(0)
    ia = 1 / al.as_fraction()
    uint = u.arg(0) if (z3.is_app(u) and u.decl().kind() == z3.Z3_OP_TO_REAL) else None
    hit = ctx._vc_seen.get(('sqrt_int', w.get_id()))
    if hit is not None:
        uint = hit[1]
    bi = None
    if z3.is_rational_value(be):
        bi = be.as_fraction() * ia
    if uint is not None and ia.denominator == 1 and bi is not None and bi.denominator == 1:
        ia_, bi_ = int(ia), int(bi)
        # (r - be)/al = ia*r - bi
        if kind == 'ceil':
            L = ia_ * (res - 1) - bi_
            U = ia_ * res - bi_
            ctx.add(z3.Implies(uint >= 0, z3.And(U >= 0, uint <= U * U, z3.Implies(L >= 0, uint > L * L))))

            def inst(t, res=res, uint=uint):
                # exact characterisation at an integer hint t:  ceil(al*w+be) <= t  <=>  w <= (t-be)/al
                if not isinstance(t, SInt):
                    return z3.BoolVal(True)
                Ut = ia_ * t.z - bi_
                return z3.Implies(uint >= 0, (res <= t.z) == z3.And(Ut >= 0, uint <= Ut * Ut))
        else:
            L = ia_ * res - bi_
            U = ia_ * (res + 1) - bi_
            ctx.add(z3.Implies(uint >= 0, z3.And(U > 0, uint < U * U, z3.Implies(L >= 0, L * L <= uint))))

            def inst(t, res=res, uint=uint):
                if not isinstance(t, SInt):
                    return z3.BoolVal(True)
                Lt = ia_ * t.z - bi_
                return z3.Implies(uint >= 0, (res >= t.z) == z3.Or(Lt <= 0, Lt * Lt <= uint))
        ctx.add_forall(inst)
    else:
        r = z3.ToReal(res)
        if kind == 'ceil':      # r-1 < al*w+be <= r
            L = (r - 1 - be) / al
            U = (r - be) / al
            ctx.add(z3.Implies(u >= 0, z3.And(U >= 0, u <= U * U, z3.Implies(L >= 0, u > L * L))))
        else:                   # r <= al*w+be < r+1
            L = (r - be) / al
            U = (r + 1 - be) / al
            ctx.add(z3.Implies(u >= 0, z3.And(U > 0, u < U * U, z3.Implies(L >= 0, L * L <= u))))
    ctx.axiom_log.add('derived: floor/ceil of an affine function of sqrt(u) bracket u between squares (monotone squaring)')


def int_form_struct(xz, _memo=None):
    """(I, D): xz == ToReal(I)/D with I an Int term and D a positive int, when xz is built from to_real of
    integer terms, rational constants, + - * and ite (structure preserved, nothing expanded); else None."""
    memo = {} if _memo is None else _memo
    k = xz.get_id()
    if k in memo:
        return memo[k][1]
    r = _int_form(xz, memo)
    memo[k] = (xz, r)
    return r


def _lcm(a, b):
    return a * b // _math.gcd(a, b)


def _int_form(e, memo):
    if z3.is_rational_value(e):
        fr = e.as_fraction()
        return z3.IntVal(fr.numerator), fr.denominator
    if z3.is_int_value(e):
        return e, 1
    if not z3.is_app(e):
        return None
    k = e.decl().kind()
    ch = e.children()
    if k == z3.Z3_OP_TO_REAL:
        return ch[0], 1
    if e.sort().kind() == z3.Z3_INT_SORT:
        return e, 1
    if k in (z3.Z3_OP_ADD, z3.Z3_OP_SUB):
        fs = [int_form_struct(c, memo) for c in ch]
        if any(f is None for f in fs):
            return None
        D = 1
        for _, d in fs:
            D = _lcm(D, d)
        terms = [i * z3.IntVal(D // d) if D // d != 1 else i for i, d in fs]
        if k == z3.Z3_OP_ADD:
            return z3.Sum(*terms), D
        r = terms[0]
        for t in terms[1:]:
            r = r - t
        return r, D
    if k == z3.Z3_OP_UMINUS:
        f = int_form_struct(ch[0], memo)
        return None if f is None else (-f[0], f[1])
    if k == z3.Z3_OP_MUL:
        fs = [int_form_struct(c, memo) for c in ch]
        if any(f is None for f in fs):
            return None
        D = 1
        I = None
        for i, d in fs:
            D *= d
            I = i if I is None else I * i
        return I, D
    if k == z3.Z3_OP_DIV:
        den = ch[1]
        if z3.is_rational_value(den) and den.as_fraction() != 0:
            f = int_form_struct(ch[0], memo)
            if f is None:
                return None
            fr = den.as_fraction()
            # (I/D) / (p/q) = I*q / (D*p)
            num, dd = f[0] * z3.IntVal(fr.denominator), f[1] * fr.numerator
            if dd < 0:
                num, dd = -num, -dd
            return num, dd
        return None
    if k == z3.Z3_OP_ITE:
        a, b = int_form_struct(ch[1], memo), int_form_struct(ch[2], memo)
        if a is None or b is None:
            return None
        D = _lcm(a[1], b[1])
        return z3.If(ch[0], a[0] * z3.IntVal(D // a[1]) if D // a[1] != 1 else a[0],
                     b[0] * z3.IntVal(D // b[1]) if D // b[1] != 1 else b[0]), D
    if k == z3.Z3_OP_POWER and z3.is_rational_value(ch[1]) and ch[1].as_fraction().denominator == 1 \
            and 0 <= ch[1].as_fraction().numerator <= 8:
        f = int_form_struct(ch[0], memo)
        if f is None:
            return None
        n = int(ch[1].as_fraction())
        I, D = z3.IntVal(1), 1
        for _ in range(n):
            I, D = I * f[0], D * f[1]
        return I, D
    return None


def int_form(xz):
    """(I, D): xz == ToReal(I)/D, I an Int polynomial (expanded, sum of monomials) in integer-sorted atoms."""
    from . import pit
    try:
        cv = pit.FConv()
        rf = cv.conv(xz)
    except (pit.NotPoly, RecursionError):
        return None
    if rf.d:
        return None
    for t in cv.terms:
        if t.sort().kind() != z3.Z3_INT_SORT:
            return None
    D = 1
    for c in rf.n.t.values():
        D = D * c.denominator // _math.gcd(D, c.denominator)
    terms = []
    for mono, c in sorted(rf.n.t.items()):
        k = int(c * D)
        fac = [z3.IntVal(k)] if k != 1 or not mono else []
        for v, e in mono:
            fac += [cv.terms[v]] * e
        terms.append(fac[0] if len(fac) == 1 else z3.Product(*fac))
    I = z3.IntVal(0) if not terms else (terms[0] if len(terms) == 1 else z3.Sum(*terms))
    return z3.simplify(I), D


def _named_round(x, kind):
    xz0 = z3.simplify(x.z)
    fi = int_form(xz0)
    if fi is not None:
        I, D = fi
        if D == 1:
            return SInt(I)
        if kind == 'floor':
            return SInt(I / z3.IntVal(D))
        return SInt(-((-I) / z3.IntVal(D)))
    return _named_round0(x, kind)


def _named_round0(x, kind):
    """floor/ceil as a named integer with its defining bracket (avoids to_int terms in the VCs)"""
    xz = z3.simplify(x.z)
    key = (kind, xz.get_id())
    hit = ctx._vc_seen.get(key)
    if hit is not None:
        return SInt(hit[1])
    r = z3.Int(ctx.fresh_name(kind))
    rr = z3.ToReal(r)
    if kind == 'floor':
        ctx.add(z3.And(rr <= xz, xz < rr + 1))
    else:
        ctx.add(z3.And(rr - 1 < xz, xz <= rr))
    ctx._vc_seen[key] = (xz, r)
    _round_sqrt_lemma(xz, r, kind)
    return SInt(r)


def sfloor(x):
    x = lift(x)
    if isinstance(x, SInt):
        return x
    z = z3.simplify(x.z)
    if z3.is_rational_value(z):
        return SInt(z3.IntVal(_math.floor(z.as_fraction())))
    return _named_round(x, 'floor')


def sceil(x):
    x = lift(x)
    if isinstance(x, SInt):
        return x
    z = z3.simplify(x.z)
    if z3.is_rational_value(z):
        return SInt(z3.IntVal(_math.ceil(z.as_fraction())))
    return _named_round(x, 'ceil')


def strunc(x):
    x = lift(x)
    if isinstance(x, SInt):
        return x
    if isinstance(x, SBool):
        return x.asint()
    z = x.z
    zs = z3.simplify(z)
    if z3.is_app(zs) and zs.decl().kind() == z3.Z3_OP_TO_REAL:
        return SInt(zs.arg(0))           # int(float(k)) = k
    fi = int_form(z)
    if fi is not None and fi[1] == 1:
        return SInt(fi[0])
    f, c = sfloor(x), sceil(x)
    return SInt(z3.If(z >= 0, f.z, c.z))


def ite(c, a, b):
    """if-then-else on symbolic condition (scalars, complex, arrays)."""
    if isinstance(c, bool):
        return a if c else b
    if type(c).__name__ in ('bool_',):
        return a if bool(c) else b
    from . import symarr
    if isinstance(a, symarr.SArr) or isinstance(b, symarr.SArr) or isinstance(c, symarr.SArr):
        return symarr.where(c, a, b)
    cz = c.z
    if isinstance(a, symarr.Sigma) or isinstance(b, symarr.Sigma):
        # a choice between sums: ind * a + (1 - ind) * b with the indicator of the condition (Sigma-terms scale by scalars)
        ind = SReal(z3.If(cz, z3.RealVal(1), z3.RealVal(0)))
        return a * ind + b * (1 - ind)
    if isinstance(a, Cx) or isinstance(b, Cx) or isinstance(a, complex) or isinstance(b, complex):
        a, b = Cx.lift(a), Cx.lift(b)
        return Cx.from_reim(SReal(z3.If(cz, a.re.z, b.re.z)), SReal(z3.If(cz, a.im.z, b.im.z)))
    a, b = lift(a), lift(b)
    if isinstance(a, SBool) and isinstance(b, SBool):
        return SBool(z3.If(cz, a.z, b.z))
    az, bz, isint = _arith(a, b)
    return _wrap(z3.If(cz, az, bz), isint)


def smax(a, b):
    return ite(lift(a) >= lift(b), a, b)


def smin(a, b):
    return ite(lift(a) <= lift(b), a, b)


# ---------------------------------------------------------------------- complex
class Cx:
    """complex scalar in phase-normal form: sum_k (re_k + i im_k) * E[phase_k].

    terms: list of (re z3 real, im z3 real, phase z3 real or None)
    """
    __slots__ = ('terms',)
    __array_priority__ = 1000
    __hash__ = None

    def __init__(self, terms):
        self.terms = Cx._norm(terms)

    @staticmethod
    def _norm(terms):
        out = []
        for (r, i, p) in terms:
            r, i = z3.simplify(r), z3.simplify(i)
            if p is not None:
                p = z3.simplify(p)
                if z3.is_rational_value(p) and p.as_fraction() == 0:
                    p = None
            if z3.is_rational_value(r) and z3.is_rational_value(i) and r.as_fraction() == 0 and i.as_fraction() == 0:
                continue
            for k, (r2, i2, p2) in enumerate(out):
                if (p is None and p2 is None) or (p is not None and p2 is not None and p.eq(p2)):
                    out[k] = (z3.simplify(r2 + r), z3.simplify(i2 + i), p2)
                    break
            else:
                out.append((r, i, p))
        return out

    @staticmethod
    def lift(x):
        if isinstance(x, Cx):
            return x
        if isinstance(x, complex) or (hasattr(x, 'dtype') and getattr(x, 'ndim', 1) == 0 and x.dtype.kind == 'c'):
            x = complex(x)
            return Cx([(zreal(x.real), zreal(x.imag), None)])
        s = lift(x)
        if isinstance(s, SBool):
            s = s.asint()
        return Cx([(_toreal(s.z), z3.RealVal(0), None)])

    @staticmethod
    def from_reim(re, im):
        re, im = lift(re), lift(im)
        return Cx([(_toreal(re.z), _toreal(im.z), None)])

    @staticmethod
    def expi(theta):
        """exp(i*theta) for real theta"""
        theta = lift(theta)
        return Cx([(z3.RealVal(1), z3.RealVal(0), _toreal(theta.z))])

    # rectangular parts (lowers E[p] to cos/sin atoms)
    @property
    def re(self):
        acc = SReal(z3.RealVal(0))
        for (r, i, p) in self.terms:
            if p is None:
                acc = acc + SReal(r)
            else:
                acc = acc + SReal(r) * scos(SReal(p)) - SReal(i) * ssin(SReal(p))
        return acc

    @property
    def im(self):
        acc = SReal(z3.RealVal(0))
        for (r, i, p) in self.terms:
            if p is None:
                acc = acc + SReal(i)
            else:
                acc = acc + SReal(r) * ssin(SReal(p)) + SReal(i) * scos(SReal(p))
        return acc

    real = re
    imag = im

    def conj(self):
        return Cx([(r, -i, (None if p is None else -p)) for (r, i, p) in self.terms])

    conjugate = conj

    def __neg__(self):
        return Cx([(-r, -i, p) for (r, i, p) in self.terms])

    def __pos__(self): return self

    def __add__(self, o):
        if not (is_scalar_like(o) or isinstance(o, (Cx, complex)) or _is_npc(o)):
            return NotImplemented
        return Cx(self.terms + Cx.lift(o).terms)
    __radd__ = __add__

    def __sub__(self, o):
        if not (is_scalar_like(o) or isinstance(o, (Cx, complex)) or _is_npc(o)):
            return NotImplemented
        return Cx(self.terms + (-Cx.lift(o)).terms)

    def __rsub__(self, o):
        if not (is_scalar_like(o) or isinstance(o, (Cx, complex)) or _is_npc(o)):
            return NotImplemented
        return Cx(Cx.lift(o).terms + (-self).terms)

    def __mul__(self, o):
        if not (is_scalar_like(o) or isinstance(o, (Cx, complex)) or _is_npc(o)):
            return NotImplemented
        o = Cx.lift(o)
        out = []
        for (r1, i1, p1) in self.terms:
            for (r2, i2, p2) in o.terms:
                p = p1 if p2 is None else (p2 if p1 is None else p1 + p2)
                out.append((r1 * r2 - i1 * i2, r1 * i2 + i1 * r2, p))
        return Cx(out)
    __rmul__ = __mul__

    def abs2(self):
        """|z|^2 as SReal"""
        if len(self.terms) == 0:
            return SReal(z3.RealVal(0))
        if len(self.terms) == 1:
            r, i, p = self.terms[0]
            return SReal(r * r + i * i)
        re, im = self.re, self.im
        return re * re + im * im

    def __abs__(self):
        return ssqrt(self.abs2())

    def inv(self):
        if len(self.terms) == 1:
            r, i, p = self.terms[0]
            d = r * r + i * i
            if ctx.div_safety:
                safety('div', SBool(d != 0))
            return Cx([(r / d, -i / d, None if p is None else -p)])
        if len(self.terms) == 0:
            raise ZeroDivisionError('complex division by zero')
        re, im = self.re, self.im
        d = re * re + im * im
        if ctx.div_safety:
            safety('div', d != 0)
        return Cx.from_reim(re / d, -im / d)

    def __truediv__(self, o):
        if not (is_scalar_like(o) or isinstance(o, (Cx, complex)) or _is_npc(o)):
            return NotImplemented
        if is_scalar_like(o):
            o = lift(o)
            if isinstance(o, SBool):
                o = o.asint()
            oz = _toreal(o.z)
            if ctx.div_safety and not z3.is_rational_value(z3.simplify(oz)):
                safety('div', SBool(oz != 0))

            def dv(x):
                x = z3.simplify(x)
                if z3.is_rational_value(x) and x.as_fraction() == 0:
                    return x
                return x / oz
            return Cx([(dv(r), dv(i), p) for (r, i, p) in self.terms])
        return self * Cx.lift(o).inv()

    def __rtruediv__(self, o):
        return Cx.lift(o) * self.inv()

    def __pow__(self, n):
        if isinstance(n, int) and n >= 0:
            r = Cx.lift(1)
            for _ in range(n):
                r = r * self
            return r
        if isinstance(n, int):
            return (self ** (-n)).inv()
        raise Unsupported('complex power')

    def __eq__(self, o):
        """sufficient condition for equality (sound in positive positions only)."""
        if o is None:
            return False
        return cx_eq(self, Cx.lift(o))

    def __ne__(self, o):
        r = self.__eq__(o)
        return True if r is False else ~r

    def __bool__(self):
        raise Unsupported('truth value of symbolic complex')

    def __repr__(self):
        return '<Cx %s>' % ' + '.join('(%s+%sj)E[%s]' % (r, i, p) for r, i, p in self.terms)[:200]

    @property
    def shape(self): return ()
    @property
    def ndim(self): return 0
    def item(self): return self
    def copy(self): return self

    @property
    def dtype(self):
        from . import symarr
        return symarr.DT('c', 128)

    def astype(self, dt):
        from . import symarr
        return symarr.cast_scalar(self, dt)


def _is_npc(o):
    return hasattr(o, 'dtype') and getattr(o, 'ndim', 1) == 0 and o.dtype.kind in 'iufcb'


def cx_eq(a, b):
    """z3 condition sufficient for a == b.  Single exponential terms are matched on
    (coefficient, phase); everything else is compared in rectangular form over cos/sin atoms."""
    d = a - b
    if len(d.terms) == 0:
        return SBool(z3.BoolVal(True))
    pa = [t for t in a.terms if t[2] is not None]
    pb = [t for t in b.terms if t[2] is not None]
    if len(a.terms) == 1 and len(b.terms) == 1 and len(pa) == 1 and len(pb) == 1:
        (r1, i1, p1), (r2, i2, p2) = a.terms[0], b.terms[0]
        # sufficient condition (a conjunction of real equalities, decidable by the polynomial-identity back end)
        return SBool(z3.And(r1 == r2, i1 == i2, p1 == p2))
    if all(t[2] is None for t in d.terms):
        r, i, _ = d.terms[0]
        return SBool(z3.And(r == 0, i == 0))
    return SBool(z3.And(d.re.z == 0, d.im.z == 0))


def cexp(x):
    """exp of a complex (or real) scalar"""
    if isinstance(x, Cx) or isinstance(x, complex):
        x = Cx.lift(x)
        if any(p is not None for (_, _, p) in x.terms):
            raise Unsupported('exp of exponential')
        if not x.terms:
            return Cx.lift(1)
        r, i, _ = x.terms[0]
        mag = sexp(SReal(r))
        return Cx([(mag.z, z3.RealVal(0), i)])
    return sexp(x)


# -------------------------------------------------------------------- harness API
def fresh_int(name):
    return SInt(z3.Int(ctx.fresh_name(name)))


def fresh_real(name):
    return SReal(z3.Real(ctx.fresh_name(name)))


def assume(c):
    if isinstance(c, bool) or type(c).__name__ == 'bool_':
        if not c:
            raise PathAbort('assume False')
        return
    ctx.add(c.z)


def tobool(c):
    if isinstance(c, SBool):
        return c.z
    if isinstance(c, bool) or type(c).__name__ in ('bool_', 'bool'):
        return z3.BoolVal(bool(c))
    if isinstance(c, SNum):
        return c.z != 0
    from . import symarr
    if isinstance(c, symarr.SArr):
        raise Unsupported('array used as a single truth value in check()')
    raise TypeError('not a boolean: %r' % (c,))


def And(*cs):
    return SBool(z3.And(*[tobool(c) for c in cs])) if cs else SBool(z3.BoolVal(True))


def Or(*cs):
    return SBool(z3.Or(*[tobool(c) for c in cs])) if cs else SBool(z3.BoolVal(False))


def Not(c):
    return SBool(z3.Not(tobool(c)))


def Implies(a, b):
    return SBool(z3.Implies(tobool(a), tobool(b)))


def _uses_uf(z):
    seen = set()
    stack = [z]
    while stack:
        t = stack.pop()
        if t.get_id() in seen:
            continue
        seen.add(t.get_id())
        if z3.is_app(t):
            if t.decl().kind() == z3.Z3_OP_UNINTERPRETED and t.num_args() > 0 and t.decl().name() in ATOM_NAMES:
                return True
            stack.extend(t.children())
    return False


def check(name, cond, safety=False):
    """verification condition: pc /\\ not cond must be unsat."""
    import time
    cz = z3.simplify(tobool(cond))
    ctx.stats['vc'] += 1
    if safety:
        k = (name, cz.get_id())
        if k in ctx._vc_seen:
            return
        ctx._vc_seen[k] = cz        # keeps the AST alive so the id stays unique
    if z3.is_true(cz):
        ctx.results.append((name, 'unsat', {'trivial': True, 't': 0.0, 'safety': safety}))
        return
    s = z3.Solver()
    first_ms = min(ctx.vc_timeout_ms, 1500)
    s.set('timeout', first_ms)
    for p in ctx.pc:
        s.add(p)
    s.add(z3.Not(cz))
    t = time.time()
    if os.environ.get('PVC_DUMP'):
        with open(os.path.join(os.environ['PVC_DUMP'], 'vc_%s_%s.smt2' % (name.replace('/', '_'), ''.join('T' if d else 'F' for d in ctx.trail)[-12:])), 'w') as f:
            f.write(s.to_smt2())
    backend = 'z3'
    pit_note = None
    nonlin_ = _looks_nonlinear(cz)
    raw_smt2 = s.to_smt2() if (nonlin_ and ctx.prefer_cli) else None      # taken before the first check(): afterwards to_smt2() shows z3's preprocessed state
    r = None
    if _looks_nonlinear(cz):
        # pure rational-function identities are decided by normalisation before any solver is asked
        from . import pit
        try:
            goals_ = pit._conjuncts(cz)
            if goals_ and all(pit._is_real_eq(g) for g in goals_):
                ok_, _cv = pit.fast_identity(goals_, entails)
                if ok_:
                    r = z3.unsat
                    backend = 'pit-identity'
        except (pit.NotPoly, RecursionError):
            pass
    tried_pit = False
    if r is None:
        r = s.check()
    if r == z3.unknown and _pure_int(cz):
        # integer projection: keep only the hypotheses that are pure integer arithmetic (dropping hypotheses is
        # sound for unsat); mixed real/UF clutter otherwise keeps z3 away from its integer procedures
        s1 = z3.Solver()
        s1.set('timeout', min(ctx.vc_timeout_ms, 8000))
        for p_ in ctx.pc:
            for c_ in _flat_and(p_):
                if _pure_int(c_):
                    s1.add(c_)
        s1.add(z3.Not(cz))
        if s1.check() == z3.unsat:
            r = z3.unsat
            backend = 'z3-int'
    if r == z3.unknown and _no_reals(cz):
        # index / bookkeeping goals over integers, booleans and uninterpreted functions: retry with the hypotheses that mention no
        # real number at all (dropping hypotheses is sound for unsat).  The full path condition drags in non-linear real
        # arithmetic on which z3's running time varies from run to run; the small projected formula is decided reliably.
        s1 = z3.Solver()
        s1.set('timeout', min(ctx.vc_timeout_ms, 8000))
        dropped = 0
        for p_ in ctx.pc:
            for c_ in (p_.children() if z3.is_and(p_) else [p_]):
                if _no_reals(c_):
                    s1.add(c_)
                else:
                    dropped += 1
        if dropped:
            s1.add(z3.Not(cz))
            if s1.check() == z3.unsat:
                r = z3.unsat
                backend = 'z3-noreal'
    if r == z3.unknown:
        # polynomial-identity back end, then z3 again on the Ackermannised formula with the full budget
        from . import pit
        # harnesses whose VCs are known to defeat PIT (ghost functions under guards) ask for the portfolio first: ctx.prefer_cli
        r_cli = _cli_portfolio(raw_smt2, 6) if raw_smt2 is not None else None
        ok, pinfo = (False, pit_note) if (tried_pit or r_cli is not None) else pit.prove(list(ctx.pc), cz, entails_cheap)
        if not ok and r_cli is None and raw_smt2 is not None:
            # portfolio stage: the same query (SMT-LIB text of the first solver's assertions) is given to the installed command-line
            # solvers, z3 5.1 and z3 4.8.12, side by side.  z3's non-linear real procedure is unstable between the in-process API
            # and the command line on identical input; an `unsat` from any of them is a proof, any other answer is ignored.
            _t0 = time.time()
            r_cli = _cli_portfolio(raw_smt2, 15)
            if os.environ.get('PVC_TRACE'):
                print('portfolio', name, r_cli, round(time.time() - _t0, 1), file=sys.stderr)
        if ok:
            r = z3.unsat
            backend = 'pit'
        elif r_cli is not None:
            r = z3.unsat
            backend = r_cli
        else:
            pit_note = str(pinfo)
            s = z3.Solver()
            s.set('timeout', ctx.vc_timeout_ms)
            for g in ackermannize(list(ctx.pc) + [z3.Not(cz)]):
                s.add(g)
            r = s.check()
            backend = 'z3-ack'
            if r == z3.sat:
                # a model of the Ackermannised formula need not respect congruence: re-confirm on the original
                s0 = z3.Solver()
                s0.set('timeout', ctx.vc_timeout_ms)
                for p in ctx.pc:
                    s0.add(p)
                s0.add(z3.Not(cz))
                r = s0.check()
                s = s0
                backend = 'z3'
    if r == z3.unknown:
        # last resort before giving up: one retry with a 4x budget (verdicts must not flip when the machine is busy)
        s = z3.Solver()
        s.set('timeout', 4 * ctx.vc_timeout_ms)
        for g in ackermannize(list(ctx.pc) + [z3.Not(cz)]):
            s.add(g)
        r2 = s.check()
        if r2 == z3.unsat:
            r = z3.unsat
            backend = 'z3-ack-retry'
        else:
            # a VC that the first, short z3 call normally discharges in a fraction of a second can miss its 1.5 s slot when the
            # machine is busy, and the Ackermannised variants are not necessarily easier: ask z3 once more for the ORIGINAL
            # formula (same input, same seed, deterministic search) with a generous budget
            s3 = z3.Solver()
            s3.set('timeout', 3 * ctx.vc_timeout_ms)
            for p in ctx.pc:
                s3.add(p)
            s3.add(z3.Not(cz))
            if s3.check() == z3.unsat:
                r = z3.unsat
                backend = 'z3-retry'
    dt = time.time() - t
    ctx.solver_s += dt
    info = {'t': dt, 'safety': safety, 'path': ''.join('T' if d else 'F' for d in ctx.trail), 'backend': backend}
    if r == z3.unsat:
        ctx.results.append((name, 'unsat', info))
    elif r == z3.sat:
        m = small_model(s)
        info['model'] = extract_model(m)
        info['abstract'] = any(_uses_uf(p) for p in ctx.pc) or _uses_uf(cz)
        info['site'] = _site()
        ctx.results.append((name, 'sat', info))
    else:
        info['reason'] = '%s; pit: %s' % (s.reason_unknown(), pit_note)
        ctx.results.append((name, 'unknown', info))
    # continue the path under the checked fact (standard assert-then-assume)
    ctx.add(cz)


def _cli_portfolio(smt2, seconds):
    """run the installed z3 command-line solvers on one query concurrently; return a back-end label if one answers unsat"""
    import shutil
    import time
    import subprocess
    import tempfile
    exes = [(e, lab) for e, lab in (('z3-new', 'z3-5.1-cli'), ('/usr/bin/z3', 'z3-4.8-cli')) if shutil.which(e)]
    if not exes:
        return None
    fd, path = tempfile.mkstemp(suffix='.smt2')
    with os.fdopen(fd, 'w') as f:
        f.write(smt2)
    procs = []
    try:
        for e, lab in exes:
            procs.append((subprocess.Popen([e, '-T:%d' % seconds, path], stdout=subprocess.PIPE, stderr=subprocess.DEVNULL, text=True), lab))
        deadline = time.time() + seconds + 5
        hit = None
        pending = list(procs)
        while pending and hit is None and time.time() < deadline:
            for pr, lab in list(pending):
                if pr.poll() is not None:
                    pending.remove((pr, lab))
                    out = (pr.stdout.read() or '').strip().splitlines()
                    if out and out[0].strip() == 'unsat':
                        hit = lab
                        break
            if hit is None and pending:
                time.sleep(0.05)
        return hit
    finally:
        for pr, _ in procs:
            if pr.poll() is None:
                pr.kill()
            try:
                pr.wait(timeout=5)
            except Exception:
                pass
        os.remove(path)


def _looks_nonlinear(z, limit=20000):
    """does the term contain a product of two non-constant factors or a division by a non-constant"""
    seen = set()
    stack = [z]
    n = 0
    while stack and n < limit:
        t = stack.pop()
        if t.get_id() in seen:
            continue
        seen.add(t.get_id())
        n += 1
        if z3.is_app(t):
            k = t.decl().kind()
            if k == z3.Z3_OP_MUL:
                nc = [c for c in t.children() if not (z3.is_rational_value(c) or z3.is_int_value(c))]
                if len(nc) >= 2:
                    return True
            elif k == z3.Z3_OP_DIV or k == z3.Z3_OP_POWER:
                return True
            stack.extend(t.children())
    return False


def _flat_and(e):
    if z3.is_and(e):
        out = []
        for c in e.children():
            out += _flat_and(c)
        return out
    if z3.is_implies(e) and entails_cheap(e.arg(0)):
        return _flat_and(e.arg(1))
    if z3.is_or(e) and e.num_args() == 2:
        a, b = e.arg(0), e.arg(1)
        if z3.is_not(a) and entails_cheap(a.arg(0)):
            return _flat_and(b)
        if z3.is_not(b) and entails_cheap(b.arg(0)):
            return _flat_and(a)
    return [e]


def entails_cheap(f):
    """entailment by the light (linear) part of the path condition first (milliseconds: guards such as n == 1 or
    n >= 2), then by the full path condition; cached per path and per pc length."""
    k = ('ent', f.get_id(), len(ctx.pc))
    hit = ctx._vc_seen.get(k)
    if hit is not None:
        return hit[1]
    r = False
    try:
        ctx.solver.set('timeout', 300)
        if ctx.solver.check(z3.Not(f)) == z3.unsat:
            r = True
    finally:
        ctx.solver.set('timeout', 3000)
    if not r and _looks_nonlinear(f, 200):
        r = entails(f)      # linear guards are decided by the light solver alone
    ctx._vc_seen[k] = (f, r)
    return r


def _no_reals(e, limit=5000):
    """no Real-sorted subterm (integers, booleans and uninterpreted functions over them)"""
    seen = set()
    stack = [e]
    n = 0
    while stack:
        t = stack.pop()
        if t.get_id() in seen:
            continue
        seen.add(t.get_id())
        n += 1
        if n > limit:
            return False
        if t.sort().kind() == z3.Z3_REAL_SORT:
            return False
        if z3.is_app(t):
            stack.extend(t.children())
    return True


def _pure_int(e, limit=5000):
    """no Real-sorted subterm and no uninterpreted function application"""
    seen = set()
    stack = [e]
    n = 0
    while stack:
        t = stack.pop()
        if t.get_id() in seen:
            continue
        seen.add(t.get_id())
        n += 1
        if n > limit:
            return False
        if t.sort().kind() == z3.Z3_REAL_SORT:
            return False
        if z3.is_app(t):
            if t.decl().kind() == z3.Z3_OP_UNINTERPRETED and t.num_args() > 0:
                return False
            stack.extend(t.children())
    return True


def entails(f):
    """cheap query: does the current path condition entail f"""
    s = z3.Solver()
    s.set('timeout', 1500)
    for p in ctx.pc:
        s.add(p)
    s.add(z3.Not(f))
    return s.check() == z3.unsat


def ackermannize(fs):
    """replace every application of an uninterpreted function by a fresh constant (congruence is
    dropped: weaker hypotheses, so unsat answers stay sound)."""
    cache = {}
    names = {}

    def rw(e):
        r = cache.get(e.get_id())
        if r is not None:
            return r
        if z3.is_app(e) and e.num_args() > 0:
            ch = [rw(c) for c in e.children()]
            if e.decl().kind() == z3.Z3_OP_UNINTERPRETED:
                key = e.decl().name() + '(' + ','.join(str(c.get_id()) for c in ch) + ')'
                r = names.get(key)
                if r is None:
                    r = z3.Const('ack!%d' % len(names), e.sort())
                    names[key] = r
            else:
                r = e.decl()(*ch)
        else:
            r = e
        cache[e.get_id()] = r
        return r
    return [rw(f) for f in fs]


def small_model(s):
    """prefer a counter-model with small integer inputs (replayable array sizes)."""
    m = s.model()
    ints = [d[1] for d in ctx.inputs.values() if d[0] == 'int']
    reals = [d[1] for d in ctx.inputs.values() if d[0] == 'real']
    if not ints and not reals:
        return m
    s.set('timeout', 3000)
    for bound in (3, 6, 12, 40, 200):
        s.push()
        for v in ints:
            s.add(v <= bound, v >= -bound)
        for v in reals:
            s.add(v <= bound, v >= -bound)
        r = s.check()
        if r == z3.sat:
            m = s.model()
            s.pop()
            return m
        s.pop()
    return m


def extract_model(m):
    out = {}
    for name, desc in ctx.inputs.items():
        kind = desc[0]
        if kind in ('int', 'real', 'bool'):
            v = m.eval(desc[1], model_completion=True)
            if kind == 'int':
                out[name] = v.as_long()
            elif kind == 'real':
                try:
                    fr = v.as_fraction()
                    out[name] = [fr.numerator, fr.denominator]
                except Exception:
                    out[name] = str(v)
            else:
                out[name] = z3.is_true(v)
        elif kind == 'array':
            _, shape, fns, akind = desc
            try:
                shp = [m.eval(_zint(d), model_completion=True).as_long() for d in shape]
            except Exception:
                continue
            out[name + '.shape'] = shp
            tot = 1
            for d in shp:
                tot *= d
            if 0 < tot <= 400:
                import itertools
                vals = []
                for idx in itertools.product(*[range(d) for d in shp]):
                    comp = []
                    for f in fns:
                        v = m.eval(f(*[z3.IntVal(i) for i in idx]), model_completion=True)
                        try:
                            fr = v.as_fraction()
                            comp.append(float(fr))
                        except Exception:
                            try:
                                comp.append(float(v.as_long()))
                            except Exception:
                                comp.append(z3.is_true(v) if z3.is_bool(v) else 0.0)
                    vals.append(comp if len(comp) > 1 else comp[0])
                out[name + '.values'] = vals
    return out


def _zint(d):
    if isinstance(d, SInt):
        return d.z
    return z3.IntVal(int(d))
