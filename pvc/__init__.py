"""pvc: contract-based deductive verification of the real prysm functions (see /verif/DESIGN.md)."""
