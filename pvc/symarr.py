"""Symbolic ndarray: (concrete rank, symbolic shape, element function, dtype tag).

Elements are produced lazily by a Python closure index-tuple -> scalar (Sc / Cx / Sigma).
In-place operations and slice assignment rebind the closure (numpy semantics for the
owning array; views write through to their base).
"""
import builtins
import itertools

import z3

from .symcore import (Sc, SInt, SReal, SBool, SNum, Cx, ctx, lift, ite, Unsupported, is_scalar_like,
                      smax, smin, check, safety, _site, PathAbort, tobool, fresh_int)
from . import symcore as sc


class DT:
    """dtype tag (A3): kind in b,i,u,f,c,O and bit width"""
    __slots__ = ('kind', 'bits')

    def __init__(self, kind, bits=None):
        self.kind = kind
        self.bits = bits

    def __eq__(self, o):
        o = as_dt(o)
        return self.kind == o.kind and self.bits == o.bits

    def __ne__(self, o):
        return not self.__eq__(o)

    def __hash__(self):
        return hash((self.kind, self.bits))

    def __repr__(self):
        return 'DT(%s%s)' % (self.kind, self.bits or '')

    @property
    def name(self):
        return {'b': 'bool', 'i': 'int', 'u': 'uint', 'f': 'float', 'c': 'complex'}[self.kind] + str(self.bits or '')

    @property
    def itemsize(self):
        return (self.bits or 8) // 8

    def type(self, x):
        return cast_scalar(x, self)

    def __call__(self, x):
        return cast_scalar(x, self)


def as_dt(d):
    import numpy as np
    if isinstance(d, DT):
        return d
    if d is None:
        return DT('f', 64)
    if d is float:
        return DT('f', 64)
    if d is int:
        return DT('i', 64)
    if d is bool:
        return DT('b')
    if d is complex:
        return DT('c', 128)
    if isinstance(d, str):
        d = np.dtype(d)
    try:
        d = np.dtype(d)
    except TypeError:
        raise Unsupported('dtype %r' % (d,))
    k = d.kind
    if k == 'b':
        return DT('b')
    if k in 'iufc':
        return DT(k, d.itemsize * 8)
    raise Unsupported('dtype kind %s' % k)


def promote(a, b):
    order = 'biufc'
    if a.kind == 'u' and b.kind == 'i' or a.kind == 'i' and b.kind == 'u':
        return DT('i', 64)
    ka, kb = order.index(a.kind), order.index(b.kind)
    k = order[builtins.max(ka, kb)]
    if k == 'b':
        return DT('b')
    bits = builtins.max(_eqbits(a, k), _eqbits(b, k))
    return DT(k, bits)


def _eqbits(d, k):
    """bits of d when viewed in kind k"""
    if d.kind == 'b':
        return 8 if k in 'iu' else (16 if k == 'f' else 64 if k == 'c' else 0)
    if d.kind in 'iu':
        if k in 'iu':
            return d.bits
        if k == 'f':
            return 64 if d.bits >= 32 else (32 if d.bits == 16 else 16)
        return 128 if d.bits >= 32 else 64
    if d.kind == 'f':
        if k == 'f':
            return d.bits
        return d.bits * 2
    return d.bits


def scalar_dt(x, weak_to=None):
    """dtype contribution of a python scalar (weak) or symbolic scalar"""
    if isinstance(x, (bool, SBool)):
        return DT('b'), True
    if isinstance(x, (int, SInt)):
        return DT('i', 64), True
    if isinstance(x, (float, SReal)):
        return DT('f', 64), True
    if isinstance(x, (complex, Cx)):
        return DT('c', 128), True
    if hasattr(x, 'dtype'):
        return as_dt(x.dtype), False
    if isinstance(x, Sigma):
        cplx = any(isinstance(t, (Cx, complex)) for (_b, t) in x.terms) or isinstance(x.plain, (Cx, complex))
        return (DT('c', 128) if cplx else DT('f', 64)), True
    raise Unsupported('scalar dtype of %r' % type(x))


def result_dt(a, b):
    """numpy 2 (NEP 50) promotion for array(dt a) op  b (array or python scalar)"""
    da, wa = (a.dtype, False) if isinstance(a, SArr) else scalar_dt(a)
    db, wb = (b.dtype, False) if isinstance(b, SArr) else scalar_dt(b)
    if wa and not wb:
        return _weak(db, da)
    if wb and not wa:
        return _weak(da, db)
    return promote(da, db)


def _weak(strong, weak):
    order = 'biufc'
    ks = 'i' if strong.kind == 'u' else strong.kind
    if order.index(weak.kind) <= order.index(ks):
        return strong
    # weak scalar of higher kind: keep precision of the strong one
    if weak.kind == 'f':
        return DT('f', 64 if strong.kind in 'biu' else strong.bits)
    if weak.kind == 'c':
        if strong.kind == 'f':
            return DT('c', strong.bits * 2)
        return DT('c', 128)
    if weak.kind == 'i':
        return DT('i', 64)
    return promote(strong, weak)


def cast_scalar(x, dt):
    dt = as_dt(dt)
    if dt.kind == 'c':
        return Cx.lift(x)
    if isinstance(x, (Cx, complex)):
        x = Cx.lift(x).re   # numpy discards imaginary part with a warning
    x = lift(x)
    if dt.kind == 'f':
        if isinstance(x, SBool):
            x = x.asint()
        return SReal(sc._toreal(x.z))
    if dt.kind in 'iu':
        v = sc.strunc(x)
        if dt.kind == 'u' and dt.bits:
            return SInt(v.z % (2 ** dt.bits))
        if dt.kind == 'i' and dt.bits and dt.bits < 64:
            m = 2 ** dt.bits
            return SInt(((v.z + m // 2) % m) - m // 2)
        return v
    if dt.kind == 'b':
        if isinstance(x, SBool):
            return x
        return SBool(x.z != 0)
    raise Unsupported('cast to %r' % dt)


def dim_eq(a, b):
    """python bool: are two dims provably/branch-wise equal (forks if undetermined)."""
    if isinstance(a, int) and isinstance(b, int):
        return a == b
    return bool(lift(a) == lift(b))


def dim_is(a, v):
    if isinstance(a, int):
        return a == v
    z = z3.simplify(a.z)
    if z3.is_int_value(z):
        return z.as_long() == v
    r = bool(a == v)
    if v == 1:
        ctx._vc_seen[('dim1', z.get_id())] = (z, r)     # decided on this path (kept alive with the AST)
    return r


def cdim(d):
    """simplify a dim to python int when concrete"""
    if isinstance(d, SInt):
        z = z3.simplify(d.z)
        if z3.is_int_value(z):
            return z.as_long()
        return SInt(z)
    if isinstance(d, Sc):
        raise Unsupported('non-integer dimension')
    if hasattr(d, 'dtype'):
        return int(d)
    if isinstance(d, float):
        raise TypeError("'float' object cannot be interpreted as an integer")
    return int(d)


class BroadcastError(ValueError):
    pass


def bshape(*shapes):
    """numpy broadcasting of symbolic shapes; returns (shape, per-input dim maps)."""
    nd = builtins.max(len(s) for s in shapes) if shapes else 0
    out = []
    for ax in range(nd):
        cur = 1
        for s in shapes:
            k = ax - (nd - len(s))
            if k < 0:
                continue
            d = s[k]
            if isinstance(cur, int) and cur == 1:
                cur = d
            elif isinstance(d, int) and d == 1:
                pass
            else:
                # both non-trivially-1: must be equal, or one of them is 1
                if dim_eq(cur, d):
                    pass
                elif dim_is(d, 1):
                    pass
                elif dim_is(cur, 1):
                    cur = d
                else:
                    raise BroadcastError('operands could not be broadcast together with shapes %s' % (shapes,))
        out.append(cur)
    return tuple(out)


def _bidx(shape, idx, nd):
    """index into an input of `shape` given an index tuple into the broadcast result of rank nd."""
    off = nd - len(shape)
    res = []
    for k, d in enumerate(shape):
        if isinstance(d, int) and d == 1:
            res.append(0)
        elif isinstance(d, SInt) and _known_one(d):
            res.append(0)
        else:
            res.append(idx[off + k])
    return tuple(res)


def _known_one(d):
    z = z3.simplify(d.z)
    if z3.is_int_value(z):
        return z.as_long() == 1
    hit = ctx._vc_seen.get(('dim1', z.get_id()))
    return bool(hit and hit[1])


def elem_binop(op, a, b):
    if op == '+': return a + b
    if op == '-': return a - b
    if op == '*': return a * b
    if op == '/': return a / b
    if op == '//': return a // b
    if op == '%': return a % b
    if op == '**': return a ** b
    if op == '<': return a < b
    if op == '<=': return a <= b
    if op == '>': return a > b
    if op == '>=': return a >= b
    if op == '==': return a == b
    if op == '!=': return a != b
    if op == '&': return a & b
    if op == '|': return a | b
    if op == '^': return a ^ b
    raise Unsupported(op)


class Sigma:
    """finite sum  sum_{bounds} body  as a scalar value (Sigma-term, DESIGN 1.4).

    bounds: list of (z3 Int const, lo Sc/int, hi Sc/int) half-open; body: scalar (Sc/Cx).
    A Sigma participates in +,-,* with scalars; equality is decided summand-wise
    under the identity bijection of bound indices (sound, incomplete).
    terms: list of (bounds, body) -- a formal sum of Sigma-terms plus a plain scalar part.
    """
    __array_priority__ = 1000
    __hash__ = None

    def __init__(self, terms, plain=0):
        self.terms = terms
        self.plain = plain

    @staticmethod
    def make(n, f, name='k', lo=0):
        v = fresh_int(name)
        body = f(v)
        if isinstance(body, Sigma):
            terms = [([(v, lo, n)] + b, t) for (b, t) in body.terms]
            s = Sigma(terms, 0)
            if not _is_zero(body.plain):
                s.terms.append(([(v, lo, n)], body.plain))
            return s
        return Sigma([([(v, lo, n)], body)], 0)

    def _lift(self, o):
        if isinstance(o, Sigma):
            return o
        return Sigma([], o)

    def __add__(self, o):
        if isinstance(o, SArr):
            return NotImplemented
        o = self._lift(o)
        return Sigma(self.terms + o.terms, self.plain + o.plain)
    __radd__ = __add__

    def __neg__(self):
        return Sigma([(b, -t) for (b, t) in self.terms], -self.plain)

    def __sub__(self, o):
        if isinstance(o, SArr):
            return NotImplemented
        return self + (-self._lift(o))

    def __rsub__(self, o):
        return (-self) + o

    def __mul__(self, o):
        if isinstance(o, SArr):
            return NotImplemented
        if isinstance(o, Sigma):
            # product of sums: distribute (bound variables are distinct by construction)
            terms = []
            for (b1, t1) in self.terms:
                for (b2, t2) in o.terms:
                    terms.append((b1 + b2, t1 * t2))
                if not _is_zero(o.plain):
                    terms.append((b1, t1 * o.plain))
            if not _is_zero(self.plain):
                for (b2, t2) in o.terms:
                    terms.append((b2, self.plain * t2))
            return Sigma(terms, self.plain * o.plain)
        return Sigma([(b, t * o) for (b, t) in self.terms], self.plain * o)
    __rmul__ = __mul__

    def __truediv__(self, o):
        if isinstance(o, (Sigma, SArr)):
            return NotImplemented
        return Sigma([(b, t / o) for (b, t) in self.terms], self.plain / o)

    def conj(self):
        return Sigma([(b, _conj(t)) for (b, t) in self.terms], _conj(self.plain))

    @property
    def real(self):
        return Sigma([(b, _re(t)) for (b, t) in self.terms], _re(self.plain))

    @property
    def imag(self):
        return Sigma([(b, _im(t)) for (b, t) in self.terms], _im(self.plain))

    def __eq__(self, o):
        return sigma_eq(self, self._lift(o))

    def __repr__(self):
        return '<Sigma %d terms>' % len(self.terms)


_SIGMA_ATOMS = {}


def sigma_atom(s):
    """name the value of a real Sigma-term by an uninterpreted real constant, the same constant for alpha-equivalent sums
    (bound indices renamed positionally).  Sound: it only gives the sum a name; used where a sum is a divisor."""
    import hashlib
    key = []
    for (bounds, body) in s.terms:
        if isinstance(body, (Cx, complex)):
            raise Unsupported('complex Sigma as a divisor')
        pairs = [(v.z, z3.Int('_sb%d' % k)) for k, (v, _lo, _hi) in enumerate(bounds)]
        bz = body.z if isinstance(body, Sc) else z3.RealVal(body)
        bs = z3.simplify(z3.substitute(bz, *pairs)).sexpr() if pairs else z3.simplify(bz).sexpr()
        bd = tuple((str(getattr(lo, 'z', lo)), str(getattr(hi, 'z', hi))) for (_v, lo, hi) in bounds)
        key.append((bd, bs))
    pl = s.plain
    key = (tuple(sorted(key)), str(getattr(pl, 'z', pl)))
    if key not in _SIGMA_ATOMS:
        _SIGMA_ATOMS[key] = SReal(z3.Real('sigma_' + hashlib.md5(repr(key).encode()).hexdigest()[:10]))
    return _SIGMA_ATOMS[key]


def _conj(t):
    return t.conj() if hasattr(t, 'conj') else t


def _re(t):
    return t.real if hasattr(t, 'real') else t


def _im(t):
    return t.imag if hasattr(t, 'imag') else 0


def _is_zero(x):
    if isinstance(x, (int, float, complex)):
        return x == 0
    if isinstance(x, Cx):
        return len(x.terms) == 0
    if isinstance(x, SNum):
        z = z3.simplify(x.z)
        return (z3.is_rational_value(z) or z3.is_int_value(z)) and z.as_fraction() == 0
    return False


def subst_scalar(t, pairs):
    """substitute z3 consts in a scalar value"""
    if isinstance(t, Cx):
        return Cx([(z3.substitute(r, *pairs), z3.substitute(i, *pairs),
                    None if p is None else z3.substitute(p, *pairs)) for (r, i, p) in t.terms])
    if isinstance(t, Sc):
        return type(t)(z3.substitute(t.z, *pairs))
    return t


def _sigma_groups(s):
    """group the terms of a Sigma by their index box (bounds compared syntactically after simplification), renaming the bound
    indices positionally, and add up the summands of each group: sum_k f + sum_k g = sum_k (f + g)"""
    groups = {}
    order = []
    for (bounds, body) in s.terms:
        key = tuple((z3.simplify(lift(lo).z).sexpr(), z3.simplify(lift(hi).z).sexpr()) for (_v, lo, hi) in bounds)
        if key not in groups:
            canon = [SInt(z3.Int(ctx.fresh_name('_sg%d' % k))) for k in range(len(bounds))]
            groups[key] = [canon, [(lo, hi) for (_v, lo, hi) in bounds], 0]
            order.append(key)
        canon = groups[key][0]
        pairs = [(v.z, c.z) for (v, _lo, _hi), c in zip(bounds, canon)]
        groups[key][2] = groups[key][2] + subst_scalar(body, pairs)
    return groups, order


def _sigma_eq_positional(a, b):
    """term k of a matches term k of b with equal index boxes (identity bijection) and equal summands for every index in the box"""
    conds = []
    pl = (a.plain == b.plain)
    conds.append(tobool(pl) if not isinstance(pl, bool) else z3.BoolVal(pl))
    for (b1, t1), (b2, t2) in zip(a.terms, b.terms):
        if len(b1) != len(b2):
            raise Unsupported('Sigma equality with different nesting')
        pairs = []
        rng = []
        for (v1, lo1, hi1), (v2, lo2, hi2) in zip(b1, b2):
            conds.append(tobool(lift(lo1) == lift(lo2)))
            conds.append(tobool(lift(hi1) == lift(hi2)))
            pairs.append((v2.z, v1.z))
            rng.append(z3.And(v1.z >= lift(lo1).z, v1.z < lift(hi1).z))
        t2s = subst_scalar(t2, pairs)
        eq = (t1 == t2s)
        eqz = tobool(eq) if not isinstance(eq, bool) else z3.BoolVal(eq)
        conds.append(z3.Implies(z3.And(*rng), eqz))
    return SBool(z3.And(*conds))


def sigma_eq(a, b):
    """sufficient conditions for equality of two formal sums (sound, incomplete: no re-indexing, no splitting of ranges).
    Same number of terms: positional matching.  Different numbers of terms: add up, in each, the summands that range over the same
    index box (sum_k f + sum_k g = sum_k (f + g)); both must then have the same boxes and equal total summands on each box.  When
    the boxes cannot be matched syntactically the comparison is UNSUPPORTED (undecided), never 'different'."""
    if len(a.terms) == len(b.terms):
        return _sigma_eq_positional(a, b)
    ga, oa = _sigma_groups(a)
    gb, ob = _sigma_groups(b)
    if set(ga) != set(gb):
        raise Unsupported('Sigma equality: index boxes of the two sums do not match syntactically (%d vs %d terms)' % (len(a.terms), len(b.terms)))
    conds = []
    pl = (a.plain == b.plain)
    conds.append(tobool(pl) if not isinstance(pl, bool) else z3.BoolVal(pl))
    for key in oa:
        ca, boxes, ta = ga[key]
        cb, _boxes, tb = gb[key]
        tb = subst_scalar(tb, [(y.z, x.z) for x, y in zip(ca, cb)]) if not isinstance(tb, (int, float, complex)) else tb
        rng = [z3.And(c.z >= lift(lo).z, c.z < lift(hi).z) for c, (lo, hi) in zip(ca, boxes)]
        eq = (ta == tb)
        eqz = tobool(eq) if not isinstance(eq, bool) else z3.BoolVal(eq)
        conds.append(z3.Implies(z3.And(*rng), eqz) if rng else eqz)
    return SBool(z3.And(*conds))


class SArr:
    __array_priority__ = 2000
    __hash__ = None

    def __init__(self, shape, fn, dtype, base=None, name=None):
        self.shape = tuple(cdim(d) for d in shape)
        self._fn = fn
        self.dtype = as_dt(dtype)
        self._base = base      # (base array, index map) for views
        self._vkey = None
        self.name = name

    # ------------------------------------------------------------ basic surface
    @property
    def ndim(self):
        return len(self.shape)

    @property
    def size(self):
        r = 1
        for d in self.shape:
            r = r * d
        return r

    @property
    def nbytes(self):
        return self.size * self.dtype.itemsize

    def __len__(self):
        if not self.shape:
            raise TypeError('len() of unsized object')
        d = self.shape[0]
        if isinstance(d, int):
            return d
        raise Unsupported('len() of array with symbolic leading dimension at %s' % _site())

    def at(self, *idx):
        """element at integer index tuple (no bounds wrap); memoised per (array state, index terms)"""
        if self._base is not None:
            base, imap = self._base
            return base.at(*imap(idx))
        fn = self._fn
        memo = self.__dict__.get('_memo')
        if memo is None or memo[0] is not fn or memo[2] != ctx.path_id:
            memo = (fn, {}, ctx.path_id)
            self._memo = memo
        keep = []
        key = []
        for i in idx:
            if isinstance(i, int):
                key.append(i)
            elif isinstance(i, Sc):
                sz = z3.simplify(i.z)
                keep.append(sz)          # keep the AST alive: z3 ids are only unique among live terms
                key.append(('z', sz.get_id()))
            else:
                keep.append(i)
                key.append(('o', id(i)))
        key = tuple(key)
        hit = memo[1].get(key)
        if hit is not None:
            return hit[1]
        v = fn(tuple(idx))
        memo[1][key] = (keep, v)
        return v

    def __repr__(self):
        return '<SArr %s %s %s>' % (self.name or '', self.shape, self.dtype)

    def __bool__(self):
        if self.ndim == 0 or all(isinstance(d, int) and d == 1 for d in self.shape):
            return bool(self.at(*([0] * self.ndim)))
        raise ValueError('The truth value of an array with more than one element is ambiguous.')

    def __iter__(self):
        n = len(self)
        for i in range(n):
            yield self[i]

    def __float__(self):
        if self.ndim == 0:
            return float(self.at())
        raise TypeError('only 0-d arrays')

    def item(self):
        return self.at(*([0] * self.ndim))

    # ------------------------------------------------------------------ indexing
    def _parse_index(self, key):
        """returns (out_shape, imap(out_idx)->in_idx) for basic indexing, or ('mask', mask)."""
        if not isinstance(key, tuple):
            key = (key,)
        key = list(key)
        # boolean mask (whole array)
        if len(key) == 1 and isinstance(key[0], SArr) and key[0].dtype.kind == 'b':
            return ('mask', key[0])
        if len(key) == 1 and hasattr(key[0], 'dtype') and not isinstance(key[0], (SArr, Sc)) \
                and getattr(key[0], 'ndim', 0) > 0 and key[0].dtype.kind == 'b':
            from .symnp import asarray
            return ('mask', asarray(key[0]))
        for k in key:
            if isinstance(k, SArr) or (hasattr(k, 'dtype') and getattr(k, 'ndim', 0) > 0):
                return ('fancy', key)
            if isinstance(k, list):
                return ('fancy', key)
        # expand Ellipsis
        n_real = sum(1 for k in key if k is not None and k is not Ellipsis)
        if any(k is Ellipsis for k in key):
            i = next(j for j, k in enumerate(key) if k is Ellipsis)
            key[i:i + 1] = [slice(None)] * (self.ndim - n_real)
        else:
            key += [slice(None)] * (self.ndim - n_real)
        if sum(1 for k in key if k is not None) != self.ndim:
            raise IndexError('too many indices for array')
        out_shape = []
        plan = []   # per input axis: ('int', v) | ('slice', start, step, out_axis)
        ax = 0
        for k in key:
            if k is None:
                out_shape.append(1)
                continue
            n = self.shape[ax]
            if isinstance(k, slice):
                start, step, length = slice_indices(k, n)
                plan.append(('slice', start, step, len(out_shape)))
                out_shape.append(length)
            else:
                if isinstance(k, SBool) or isinstance(k, bool):
                    raise Unsupported('boolean scalar index')
                v = lift(k) if not isinstance(k, int) else k
                if isinstance(v, SReal):
                    raise IndexError('only integers, slices are valid indices')
                # negative wrap + bounds
                if isinstance(v, int) and isinstance(n, int):
                    if v < -n or v >= n:
                        raise IndexError('index %d is out of bounds for axis %d with size %d' % (v, ax, n))
                    v = v + n if v < 0 else v
                else:
                    v = lift(v)
                    nn = lift(n)
                    if bool(sc.Or(v < -nn, v >= nn)):
                        raise IndexError('index out of bounds (symbolic) for axis %d at %s' % (ax, _site()))
                    if ctx.feasible((v < 0).z):
                        v = ite(v < 0, v + nn, v)
                plan.append(('int', v))
            ax += 1

        def imap(oidx, plan=plan):
            res = []
            for p in plan:
                if p[0] == 'int':
                    res.append(p[1])
                else:
                    _, start, step, oa = p
                    res.append(start + oidx[oa] * step if not (isinstance(step, int) and step == 1) else start + oidx[oa])
            return tuple(res)
        return (tuple(out_shape), imap)

    def __getitem__(self, key):
        r = self._parse_index(key)
        if r[0] == 'mask':
            raise Unsupported('boolean-mask selection (shape-changing) at %s' % _site())
        if r[0] == 'fancy':
            return self._fancy_get(r[1])
        out_shape, imap = r
        if len(out_shape) == 0:
            return self.at(*imap(()))
        v = SArr(out_shape, None, self.dtype, base=(self, imap))
        v._vkey = key
        return v

    def _fancy_get(self, key):
        # integer-array indexing along the first axis only:  a[idxarray]  or a[idxarray, ...]
        from .symnp import asarray
        if len(key) >= 1 and all((isinstance(k, slice) and k == slice(None)) for k in key[1:]):
            ia = asarray(key[0])
            if ia.dtype.kind not in 'iu':
                raise Unsupported('fancy index of kind %s' % ia.dtype.kind)
            rest = self.shape[1:]
            n0 = self.shape[0]
            src = self

            def fn(idx, ia=ia, src=src, k=ia.ndim, n0=n0):
                j = ia.at(*idx[:k])
                j = ite(lift(j) < 0, j + n0, j)
                return src.at(j, *idx[k:])
            return SArr(ia.shape + rest, fn, self.dtype)
        raise Unsupported('general fancy indexing at %s' % _site())

    def _writable_root(self):
        a = self
        while a._base is not None:
            a = a._base[0]
        return a

    def __setitem__(self, key, value):
        r = self._parse_index(key)
        if r[0] == 'mask':
            mask = r[1]
            if not shapes_equal(mask.shape, self.shape):
                raise IndexError('boolean index did not match indexed array')
            if isinstance(value, SArr):
                if value.ndim != 0 and not all(isinstance(d, int) and d == 1 for d in value.shape):
                    raise Unsupported('masked assignment of an array value')
                value = value.item()
            old = self._snapshot()
            val = _cast_in(value, self.dtype)
            self._rebind(lambda idx, old=old, mask=mask, val=val: ite(mask.at(*idx), val, old(idx)))
            return
        if r[0] == 'fancy':
            raise Unsupported('fancy-index assignment at %s' % _site())
        out_shape, imap = r
        if isinstance(value, (list, tuple)):
            from .symnp import asarray
            value = asarray(value)
        # value must broadcast to out_shape
        if isinstance(value, SArr) or (hasattr(value, 'shape') and not isinstance(value, (Sc, Cx)) and getattr(value, 'ndim', 0) > 0):
            from .symnp import asarray
            value = asarray(value)     # frozen snapshot (numpy copies at assignment time)
            vshape = value.shape
            # leading 1-dims of value may be dropped
            full = bshape(out_shape, vshape)
            if len(full) != len(out_shape) or not shapes_equal(full, out_shape):
                raise ValueError('could not broadcast input array from shape %s into shape %s' % (vshape, out_shape))
            vget = lambda oidx, value=value, nd=len(out_shape): value.at(*_bidx(value.shape, oidx, nd))
        else:
            if isinstance(value, SArr):
                value = value.item()
            vget = lambda oidx, value=value: value
        dt = self.dtype
        # invert the index map: for an element idx of self decide if it is in the slice
        plan_inv = self._invert(key)
        old = self._snapshot()

        def fn(idx, old=old, plan_inv=plan_inv, vget=vget, dt=dt):
            inside, oidx = plan_inv(idx)
            newv = _cast_in(vget(oidx), dt)
            if inside is True:
                return newv
            return ite(inside, newv, old(idx))
        self._rebind(fn)

    def _snapshot(self):
        """closure returning the current element at an index (for functional update)"""
        if self._base is None:
            frozen = SArr(self.shape, self._fn, self.dtype)
            memo = self.__dict__.get('_memo')
            if memo is not None and memo[0] is self._fn:
                frozen._memo = memo
            return lambda idx, frozen=frozen: frozen.at(*idx)
        base, imap = self._base
        bs = base._snapshot()
        return lambda idx, bs=bs, imap=imap: bs(imap(tuple(idx)))

    def _rebind(self, fn):
        """install new element function (writing through views to the root)."""
        if self._base is None:
            self._fn = fn
            return
        # view: express as update of the base on the image of the view
        if getattr(self, '_vkey', None) is None:
            raise Unsupported('in-place update of a non-slice view at %s' % _site())
        base = self._base[0]
        base[self._vkey] = SArr(self.shape, fn, self.dtype)

    def _invert(self, key):
        """for basic index `key`: function idx(self) -> (inside cond, out idx)"""
        if not isinstance(key, tuple):
            key = (key,)
        key = list(key)
        n_real = sum(1 for k in key if k is not None and k is not Ellipsis)
        if any(k is Ellipsis for k in key):
            i = next(j for j, k in enumerate(key) if k is Ellipsis)
            key[i:i + 1] = [slice(None)] * (self.ndim - n_real)
        else:
            key += [slice(None)] * (self.ndim - n_real)
        plan = []
        ax = 0
        oa = 0
        for k in key:
            if k is None:
                oa += 1
                continue
            n = self.shape[ax]
            if isinstance(k, slice):
                start, step, length = slice_indices(k, n)
                full = (k.start is None and k.stop is None and (k.step is None or k.step == 1))
                plan.append(('slice', start, step, length, oa, full))
                oa += 1
            else:
                v = k
                if isinstance(v, int) and isinstance(n, int):
                    v = v + n if v < 0 else v
                else:
                    v = ite(lift(v) < 0, lift(v) + n, lift(v))
                plan.append(('int', v))
            ax += 1
        nout = oa

        def inv(idx, plan=plan, nout=nout):
            conds = []
            oidx = [0] * nout
            for a, p in enumerate(plan):
                i = idx[a]
                if p[0] == 'int':
                    c = (lift(i) == p[1])
                    conds.append(c)
                else:
                    _, start, step, length, oa, full = p
                    if full:
                        o = i
                    elif isinstance(step, int) and step == 1:
                        o = i - start
                        conds.append(sc.And(lift(o) >= 0, lift(o) < length))
                    elif isinstance(step, int) and step > 0:
                        d = i - start
                        o = d // step
                        conds.append(sc.And(lift(d) >= 0, lift(d) % step == 0, lift(o) < length))
                    elif isinstance(step, int) and step < 0:
                        d = start - i
                        o = d // (-step)
                        conds.append(sc.And(lift(d) >= 0, lift(d) % (-step) == 0, lift(o) < length))
                    else:
                        raise Unsupported('symbolic slice step')
                    oidx[oa] = o
            conds = [c for c in conds if not (isinstance(c, bool) and c)]
            cz = [tobool(c) for c in conds]
            if not cz:
                return True, tuple(oidx)
            c = z3.simplify(z3.And(*cz))
            if z3.is_true(c):
                return True, tuple(oidx)
            return SBool(c), tuple(oidx)
        return inv

    # ------------------------------------------------------------- elementwise
    def _ew(self, other, op, rev=False):
        if isinstance(other, (list, tuple)):
            from .symnp import asarray
            other = asarray(other)
        if hasattr(other, 'dtype') and not isinstance(other, (SArr, Sc, Cx)) and getattr(other, 'ndim', 0) > 0:
            from .symnp import asarray
            other = asarray(other)
        if isinstance(other, SArr):
            shp = bshape(self.shape, other.shape)
            nd = len(shp)
            a, b = (other, self) if rev else (self, other)
            dt = _op_dt(op, a, b)

            sa, sb = a._snapshot(), b._snapshot()
            ash, bsh = a.shape, b.shape

            def fn(idx, sa=sa, sb=sb, nd=nd):
                return elem_binop(op, sa(_bidx(ash, idx, nd)), sb(_bidx(bsh, idx, nd)))
            return SArr(shp, fn, dt)
        if not (is_scalar_like(other) or isinstance(other, (Cx, complex, Sigma)) or sc._is_npc(other)):
            return NotImplemented
        if hasattr(other, 'dtype') and not isinstance(other, (Sc, Cx)):
            other = other.item()
        if isinstance(other, Sigma) and op == '/' and not rev:
            other = sigma_atom(other)          # a sum as divisor: named by an atom (alpha-equivalent sums share it)
        dt = _op_dt(op, other, self) if rev else _op_dt(op, self, other)
        me = self._snapshot()
        if rev:
            fn = lambda idx, me=me, other=other: elem_binop(op, other, me(idx))
        else:
            fn = lambda idx, me=me, other=other: elem_binop(op, me(idx), other)
        return SArr(self.shape, fn, dt)

    def __add__(self, o): return self._ew(o, '+')
    def __radd__(self, o): return self._ew(o, '+', True)
    def __sub__(self, o): return self._ew(o, '-')
    def __rsub__(self, o): return self._ew(o, '-', True)
    def __mul__(self, o): return self._ew(o, '*')
    def __rmul__(self, o): return self._ew(o, '*', True)
    def __truediv__(self, o): return self._ew(o, '/')
    def __rtruediv__(self, o): return self._ew(o, '/', True)
    def __floordiv__(self, o): return self._ew(o, '//')
    def __rfloordiv__(self, o): return self._ew(o, '//', True)
    def __mod__(self, o): return self._ew(o, '%')
    def __rmod__(self, o): return self._ew(o, '%', True)
    def __pow__(self, o): return self._ew(o, '**')
    def __rpow__(self, o): return self._ew(o, '**', True)
    def __lt__(self, o): return self._ew(o, '<')
    def __le__(self, o): return self._ew(o, '<=')
    def __gt__(self, o): return self._ew(o, '>')
    def __ge__(self, o): return self._ew(o, '>=')
    def __eq__(self, o):
        if o is None:
            return False
        return self._ew(o, '==')
    def __ne__(self, o):
        if o is None:
            return True
        return self._ew(o, '!=')
    def __and__(self, o): return self._ew(o, '&')
    def __rand__(self, o): return self._ew(o, '&', True)
    def __or__(self, o): return self._ew(o, '|')
    def __ror__(self, o): return self._ew(o, '|', True)
    def __xor__(self, o): return self._ew(o, '^')

    def __neg__(self):
        me = self._snapshot()
        return SArr(self.shape, lambda idx: -me(idx), self.dtype)

    def __pos__(self):
        return self

    def __abs__(self):
        me = self._snapshot()
        dt = DT('f', self.dtype.bits // 2) if self.dtype.kind == 'c' else self.dtype
        return SArr(self.shape, lambda idx: abs(me(idx)), dt)

    def __invert__(self):
        me = self._snapshot()
        if self.dtype.kind != 'b':
            raise Unsupported('~ on non-bool array')
        return SArr(self.shape, lambda idx: ~me(idx), self.dtype)

    def _inplace(self, other, op):
        res = self._ew(other, op)
        if res is NotImplemented:
            return NotImplemented
        if not shapes_equal(res.shape, self.shape):
            raise ValueError('non-broadcastable output operand with shape %s' % (self.shape,))
        # numpy same-kind casting rule for in-place ops
        order = 'biufc'
        rk = 'i' if res.dtype.kind == 'u' else res.dtype.kind
        sk = 'i' if self.dtype.kind == 'u' else self.dtype.kind
        if order.index(rk) > order.index(sk):
            raise TypeError("Cannot cast ufunc output from dtype('%s') to dtype('%s') with casting rule 'same_kind'"
                            % (res.dtype.name, self.dtype.name))
        dt = self.dtype
        snap = SArr(self.shape, self._snapshot(), self.dtype)
        res2 = snap._ew(other, op)
        self._rebind(lambda idx, r=res2, dt=dt: _cast_in(r.at(*idx), dt))
        return self

    def __iadd__(self, o): return self._inplace(o, '+')
    def __isub__(self, o): return self._inplace(o, '-')
    def __imul__(self, o): return self._inplace(o, '*')
    def __itruediv__(self, o): return self._inplace(o, '/')
    def __ifloordiv__(self, o): return self._inplace(o, '//')
    def __ipow__(self, o): return self._inplace(o, '**')
    def __ior__(self, o): return self._inplace(o, '|')
    def __iand__(self, o): return self._inplace(o, '&')

    # ------------------------------------------------------------------ methods
    def copy(self):
        return SArr(self.shape, self._snapshot(), self.dtype)

    def astype(self, dt, copy=True):
        dt = as_dt(dt)
        snap = self._snapshot()
        return SArr(self.shape, lambda idx: cast_scalar(snap(idx), dt), dt)

    def conj(self):
        if self.dtype.kind != 'c':
            return self
        me = self._snapshot()
        return SArr(self.shape, lambda idx: _conj(me(idx)), self.dtype)

    conjugate = conj

    @property
    def real(self):
        if self.dtype.kind != 'c':
            return self
        me = self
        return SArr(self.shape, lambda idx: _re(me.at(*idx)), DT('f', self.dtype.bits // 2))

    @property
    def imag(self):
        me = self
        if self.dtype.kind != 'c':
            return SArr(self.shape, lambda idx: lift(0), self.dtype)
        return SArr(self.shape, lambda idx: _im(me.at(*idx)), DT('f', self.dtype.bits // 2))

    @property
    def T(self):
        return self.transpose()

    def transpose(self, *axes):
        if len(axes) == 1 and isinstance(axes[0], (tuple, list)):
            axes = tuple(axes[0])
        if not axes or axes == (None,):
            axes = tuple(reversed(range(self.ndim)))
        shp = tuple(self.shape[a] for a in axes)

        def imap(oidx, axes=axes):
            res = [None] * len(axes)
            for o, a in enumerate(axes):
                res[a] = oidx[o]
            return tuple(res)
        return SArr(shp, None, self.dtype, base=(self, imap))

    def swapaxes(self, a, b):
        axes = list(range(self.ndim))
        axes[a], axes[b] = axes[b], axes[a]
        return self.transpose(axes)

    def reshape(self, *shape, order='C'):
        from .symnp import reshape
        if len(shape) == 1 and isinstance(shape[0], (tuple, list)):
            shape = tuple(shape[0])
        return reshape(self, shape)

    def ravel(self, order='C'):
        if order != 'C':
            raise Unsupported('ravel(order=%r): only C order is modelled (memory layout is not part of the value model)' % (order,))
        from .symnp import reshape
        return reshape(self, (self.size,))

    def flatten(self):
        return self.ravel().copy()

    def squeeze(self, axis=None):
        keep = [k for k, d in enumerate(self.shape) if not (isinstance(d, int) and d == 1)]
        shp = tuple(self.shape[k] for k in keep)
        nd = self.ndim

        def imap(oidx, keep=keep, nd=nd):
            res = [0] * nd
            for o, k in enumerate(keep):
                res[k] = oidx[o]
            return tuple(res)
        if not shp:
            return self.at(*([0] * nd))
        return SArr(shp, None, self.dtype, base=(self, imap))

    def sum(self, axis=None, dtype=None, keepdims=False):
        from .symnp import sum as _sum
        return _sum(self, axis=axis, keepdims=keepdims)

    def mean(self, axis=None, keepdims=False):
        from .symnp import mean as _mean
        return _mean(self, axis=axis, keepdims=keepdims)

    def max(self, axis=None):
        from .symnp import amax
        return amax(self, axis)

    def min(self, axis=None):
        from .symnp import amin
        return amin(self, axis)

    def dot(self, o):
        from .symnp import matmul
        return matmul(self, o)

    def __matmul__(self, o):
        from .symnp import matmul
        return matmul(self, o)

    def __rmatmul__(self, o):
        from .symnp import matmul, asarray
        return matmul(asarray(o), self)

    def fill(self, v):
        dt = self.dtype
        self._rebind(lambda idx: _cast_in(v, dt))

    def tolist(self):
        return [self[i].tolist() if self.ndim > 1 else self.at(i) for i in range(len(self))]

    def any(self):
        raise Unsupported('array.any()')

    def all(self):
        raise Unsupported('array.all()')


def shapes_equal(a, b):
    if len(a) != len(b):
        return False
    return all(dim_eq(x, y) for x, y in zip(a, b))


def _op_dt(op, a, b):
    if op in ('<', '<=', '>', '>=', '==', '!='):
        return DT('b')
    dt = result_dt(a, b)
    if op == '/':
        if dt.kind in 'biu':
            return DT('f', 64)
    if op in ('&', '|', '^'):
        return dt
    return dt


def _cast_in(v, dt):
    """store value v into array of dtype dt (value semantics only where property-relevant)."""
    if dt.kind == 'c':
        if isinstance(v, Sigma):
            return v
        return v if isinstance(v, Cx) else Cx.lift(v)
    if isinstance(v, Sigma):
        return v
    if isinstance(v, (Cx, complex)):
        # numpy: ComplexWarning, imaginary part discarded
        return Cx.lift(v).re
    if dt.kind == 'f':
        v = lift(v)
        if isinstance(v, SBool):
            v = v.asint()
        return v if isinstance(v, SReal) else SReal(sc._toreal(v.z))
    if dt.kind in 'iu':
        return cast_scalar(v, dt)
    if dt.kind == 'b':
        return cast_scalar(v, dt)
    return v


def where(c, a, b):
    from .symnp import asarray
    parts = [x for x in (c, a, b) if isinstance(x, SArr) or (hasattr(x, 'ndim') and not isinstance(x, (Sc, Cx)) and getattr(x, 'ndim', 0) > 0)]
    parts = [asarray(p) for p in parts]
    shp = bshape(*[p.shape for p in parts])
    nd = len(shp)

    def get(x, idx):
        if isinstance(x, SArr):
            return x.at(*_bidx(x.shape, idx, nd))
        return x
    c2 = asarray(c) if not isinstance(c, (SArr, Sc, bool)) and hasattr(c, 'ndim') and c.ndim > 0 else c
    a2 = asarray(a) if not isinstance(a, (SArr, Sc, Cx)) and hasattr(a, 'ndim') and a.ndim > 0 else a
    b2 = asarray(b) if not isinstance(b, (SArr, Sc, Cx)) and hasattr(b, 'ndim') and b.ndim > 0 else b
    if isinstance(a2, SArr) and isinstance(b2, SArr):
        dt = promote(a2.dtype, b2.dtype)
    elif isinstance(a2, SArr):
        dt = result_dt(a2, b2)
    elif isinstance(b2, SArr):
        dt = result_dt(b2, a2)
    else:
        dt = promote(scalar_dt(a2)[0], scalar_dt(b2)[0])
    return SArr(shp, lambda idx: ite(get(c2, idx), get(a2, idx), get(b2, idx)), dt)


def slice_indices(s, n):
    """Python slice semantics on an axis of (possibly symbolic) length n.
    returns (start, step, length) with start the first selected index."""
    step = s.step
    if step is None:
        step = 1
    if isinstance(step, Sc):
        z = z3.simplify(step.z)
        if not z3.is_int_value(z):
            raise Unsupported('symbolic slice step')
        step = z.as_long()
    step = int(step)
    if step == 0:
        raise ValueError('slice step cannot be zero')
    start, stop = s.start, s.stop
    for v in (start, stop):
        if isinstance(v, (float, SReal)):
            raise TypeError('slice indices must be integers or None or have an __index__ method')
    allc = isinstance(n, int) and (start is None or isinstance(start, int)) and (stop is None or isinstance(stop, int))
    if allc:
        st, sp, stp = slice(start, stop, step).indices(n)
        return st, stp, len(range(st, sp, stp))
    if hasattr(start, 'dtype') and not isinstance(start, Sc):
        start = int(start)
    if hasattr(stop, 'dtype') and not isinstance(stop, Sc):
        stop = int(stop)
    nn = lift(n)
    if start is None and stop is None and step == 1:
        return 0, 1, n
    if start is None and stop is None and step == -1:
        return _c(nn - 1), -1, n
    if step > 0:
        if start is None:
            st = 0
        else:
            a = lift(start)
            st = ite(a < 0, smax(a + nn, 0), smin(a, nn))
        if stop is None:
            sp = nn
        else:
            b = lift(stop)
            sp = ite(b < 0, smax(b + nn, 0), smin(b, nn))
        span = sp - st
        if step == 1:
            length = smax(span, 0)
        else:
            length = smax((span + (step - 1)) // step, 0)
        return _c(st), step, _c(length)
    else:
        if start is None:
            st = nn - 1
        else:
            a = lift(start)
            st = ite(a < 0, smax(a + nn, -1), smin(a, nn - 1))
        if stop is None:
            sp = lift(-1)
        else:
            b = lift(stop)
            sp = ite(b < 0, smax(b + nn, -1), smin(b, nn - 1))
        span = st - sp
        k = -step
        length = smax(span, 0) if k == 1 else smax((span + (k - 1)) // k, 0)
        return _c(st), step, _c(length)


def _c(v):
    if isinstance(v, SInt):
        z = z3.simplify(v.z)
        if z3.is_int_value(z):
            return z.as_long()
        return SInt(z)
    return v
