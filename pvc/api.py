"""Harness API: one contract text, two evaluators (DESIGN 1.2).
PVC_MODE=symbolic (default, python3-vt with z3) or concrete (replay / cover / bounded)."""
import os

if os.environ.get('PVC_MODE', 'symbolic') == 'concrete':
    from .concrete import *      # noqa
    from . import concrete as backend
else:
    from .symbolic import *      # noqa
    from . import symbolic as backend
from .registry import harness, HARNESSES, lemma  # noqa
