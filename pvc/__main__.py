import sys
from .runner import main
sys.exit(main())
