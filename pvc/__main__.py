import os
import sys

if os.environ.get('PYTHONHASHSEED') != '0':
    # deterministic set/dict iteration order -> identical VC text on every run -> identical solver behaviour
    os.environ['PYTHONHASHSEED'] = '0'
    os.execv(sys.executable, [sys.executable, '-m', 'pvc'] + sys.argv[1:])

from .runner import main
sys.exit(main())
